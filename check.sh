#!/bin/sh
# usage: check.sh <property> <quick|thorough> [extra vcheck flags]
# Rebuilds the harness against /repo's working tree (build tag verif) and runs the check.
# exit 0 = held, 1 = violation (VIOLATION line printed), 2 = infrastructure trouble.
PROP="$1"; TIER="${2:-quick}"; shift; shift 2>/dev/null
export GOFLAGS=-mod=mod GOPROXY=off GOSUMDB=off GOTOOLCHAIN=local TZ=UTC
export VERIF_ROOT="${VERIF_ROOT:-/verif}"
cd "$VERIF_ROOT/sim" || exit 2
sh "$VERIF_ROOT/build.sh" >&2 || { echo "build failed" >&2; exit 2; }
exec "$VERIF_ROOT/bin/vcheck" check -property "$PROP" -tier "$TIER" "$@"
