#!/bin/sh
# Builds the harness against /repo's current working tree. Serialised with a lock so that
# concurrent checks do not race on the generated wiring file or the binary.
export GOFLAGS=-mod=mod GOPROXY=off GOSUMDB=off GOTOOLCHAIN=local TZ=UTC
VERIF_ROOT="${VERIF_ROOT:-/verif}"
cd "$VERIF_ROOT/sim" || exit 2
mkdir -p "$VERIF_ROOT/bin"
(
  flock 9
  go run ./cmd/genwiring "${VERIF_REPO:-/repo}/cmd/serve/serve.go" k/wiring_gen.go.tmp || exit 2
  if ! cmp -s k/wiring_gen.go.tmp k/wiring_gen.go; then mv k/wiring_gen.go.tmp k/wiring_gen.go; else rm -f k/wiring_gen.go.tmp; fi
  go build -tags verif -o "$VERIF_ROOT/bin/vcheck.new" ./cmd/vcheck || exit 2
  mv "$VERIF_ROOT/bin/vcheck.new" "$VERIF_ROOT/bin/vcheck"
  # engines P and L need testing/synctest: built as a test binary with the newer toolchain
  GOTOOLCHAIN=local go1.26.8 test -tags verif -c -o "$VERIF_ROOT/bin/ptest.new" ./p || exit 2
  mv "$VERIF_ROOT/bin/ptest.new" "$VERIF_ROOT/bin/ptest"
) 9>"$VERIF_ROOT/bin/.build.lock"
