package k

import (
	"bytes"
	"context"
	"encoding/json"
	"fmt"
	"net/http"
	"net/http/httptest"
	"net/url"
	"runtime/debug"
	"strconv"
	"strings"
	"time"

	"google.golang.org/grpc/codes"
	"google.golang.org/grpc/status"
	"google.golang.org/protobuf/encoding/protojson"
	"google.golang.org/protobuf/proto"

	"github.com/resonatehq/resonate/internal/api"
	sgrpc "github.com/resonatehq/resonate/internal/app/subsystems/api/grpc"
	"github.com/resonatehq/resonate/internal/app/subsystems/api/grpc/pb"
	shttp "github.com/resonatehq/resonate/internal/app/subsystems/api/http"
	"github.com/resonatehq/resonate/internal/kernel/bus"
	"github.com/resonatehq/resonate/internal/kernel/t_api"
)

// Engine F: requests enter through the production front ends. The gin engine
// (routes, binding, handlers) is served through httptest without TCP, the gRPC
// service methods are called directly. Each request runs on its own goroutine
// because the handler blocks for the reply; the api wrapper hands the
// submission over to the scheduler goroutine, so that only one goroutine runs
// at any time and runs replay.

type apiSQE = bus.SQE[t_api.Request, t_api.Response]

// Rendered is what the front end gave back to the client.
type Rendered struct {
	Proto      string
	HTTPStatus int
	Body       []byte
	GrpcCode   codes.Code
	GrpcMsg    proto.Message
	GrpcErr    string
	Panic      string
	Frame      string
}

type frontCall struct {
	enq      chan *apiSQE
	done     chan struct{}
	rendered *Rendered
}

// frontAPI is the api.API the front ends see.
type frontAPI struct {
	api.API
	sim *Sim
}

func (f *frontAPI) EnqueueSQE(sqe *apiSQE) {
	// hand the submission to the scheduler goroutine and go on to wait for the reply
	f.sim.curCall.enq <- sqe
}

// captureAPI answers immediately with a prepared outcome (translation shadow
// and status matrix).
type captureAPI struct {
	api.API
	got *t_api.Request
	res *t_api.Response
	err error
	mk  func(*t_api.Request) (*t_api.Response, error)
}

func (c *captureAPI) EnqueueSQE(sqe *apiSQE) {
	c.got = sqe.Submission
	if c.mk != nil {
		c.res, c.err = c.mk(sqe.Submission)
	}
	if c.res == nil && c.err == nil {
		sqe.Callback(nil, t_api.NewError(t_api.StatusSystemShuttingDown, nil))
		return
	}
	sqe.Callback(c.res, c.err)
}

func (c *captureAPI) DequeueCQE(cq <-chan *bus.CQE[t_api.Request, t_api.Response]) *bus.CQE[t_api.Request, t_api.Response] {
	return <-cq
}

type fronts struct {
	http http.Handler
	grpc sgrpc.Services
}

func newFronts(a api.API) (*fronts, error) {
	sub, err := shttp.New(a, &shttp.Config{Addr: "127.0.0.1:0", Timeout: time.Second, TaskFrequency: time.Minute})
	if err != nil {
		return nil, err
	}
	h := sub.(*shttp.Http)
	_ = h.CloseListener()
	return &fronts{http: h.Handler(), grpc: sgrpc.NewServices(a)}, nil
}

// ------------------------------------------------------------------ builders

type httpReq struct {
	Method  string
	Path    string
	// IdPrefix: the part of Path before a client-supplied id (which a client escapes)
	IdPrefix string
	Query   url.Values
	Headers map[string]string
	Body    any // marshalled as JSON unless RawBody is set
	RawBody *string
}

func valueJSON(h map[string]string, d *string) map[string]any {
	m := map[string]any{}
	if h != nil {
		m["headers"] = h
	}
	if d != nil {
		m["data"] = []byte(*d)
	}
	return m
}

func stateName(s string) string { return strings.ToUpper(s) }

// buildHTTP renders a request spec as the HTTP request a client would send.
func (s *Sim) buildHTTP(client int, sp *ReqSpec, reqId string) (*httpReq, bool) {
	hd := map[string]string{"request-id": reqId}
	if sp.IKey != nil {
		hd["idempotency-key"] = *sp.IKey
	}
	if sp.Strict {
		hd["strict"] = "true"
	}
	jsonHdr := func() { hd["content-type"] = "application/json" }
	switch sp.Kind {
	case "ReadPromise":
		return &httpReq{Method: "GET", Path: "/promises/" + sp.Id, IdPrefix: "/promises/", Headers: hd}, true
	case "CreatePromise":
		jsonHdr()
		b := map[string]any{"id": sp.Id, "param": valueJSON(sp.Headers, sp.Data), "timeout": s.timeoutOf(sp)}
		if sp.Tags != nil {
			b["tags"] = sp.Tags
		}
		return &httpReq{Method: "POST", Path: "/promises", Headers: hd, Body: b}, true
	case "CreatePromiseAndTask":
		jsonHdr()
		p := map[string]any{"id": sp.Id, "param": valueJSON(sp.Headers, sp.Data), "timeout": s.timeoutOf(sp)}
		if sp.Tags != nil {
			p["tags"] = sp.Tags
		}
		return &httpReq{Method: "POST", Path: "/promises/task", Headers: hd, Body: map[string]any{"promise": p, "task": map[string]any{"processId": sp.Process, "ttl": sp.Ttl}}}, true
	case "CompletePromise":
		jsonHdr()
		return &httpReq{Method: "PATCH", Path: "/promises/" + sp.Id, IdPrefix: "/promises/", Headers: hd, Body: map[string]any{"state": stateName(sp.State), "value": valueJSON(sp.Headers, sp.Data)}}, true
	case "CreateCallback":
		jsonHdr()
		return &httpReq{Method: "POST", Path: "/callbacks", Headers: hd, Body: map[string]any{"Id": sp.Id, "promiseId": sp.PromiseId, "rootPromiseId": sp.RootId, "timeout": s.timeoutOf(sp), "recv": json.RawMessage(sp.Recv)}}, true
	case "CreateSubscription":
		jsonHdr()
		return &httpReq{Method: "POST", Path: "/subscriptions", Headers: hd, Body: map[string]any{"Id": sp.Id, "promiseId": sp.PromiseId, "timeout": s.timeoutOf(sp), "recv": json.RawMessage(sp.Recv)}}, true
	case "ReadSchedule":
		return &httpReq{Method: "GET", Path: "/schedules/" + sp.Id, IdPrefix: "/schedules/", Headers: hd}, true
	case "DeleteSchedule":
		return &httpReq{Method: "DELETE", Path: "/schedules/" + sp.Id, IdPrefix: "/schedules/", Headers: hd}, true
	case "CreateSchedule":
		jsonHdr()
		b := map[string]any{"id": sp.Id, "cron": sp.Cron, "promiseId": sp.PromiseId, "promiseTimeout": sp.PromiseTimeout, "promiseParam": valueJSON(sp.Headers, sp.Data)}
		if sp.Desc != "" {
			b["desc"] = sp.Desc
		}
		if sp.Tags != nil {
			b["tags"] = sp.Tags
		}
		if sp.PromiseTags != nil {
			b["promiseTags"] = sp.PromiseTags
		}
		return &httpReq{Method: "POST", Path: "/schedules", Headers: hd, Body: b}, true
	case "AcquireLock":
		jsonHdr()
		return &httpReq{Method: "POST", Path: "/locks/acquire", Headers: hd, Body: map[string]any{"resourceId": sp.Resource, "executionId": sp.Execution, "processId": sp.Process, "ttl": sp.Ttl}}, true
	case "ReleaseLock":
		jsonHdr()
		return &httpReq{Method: "POST", Path: "/locks/release", Headers: hd, Body: map[string]any{"resourceId": sp.Resource, "executionId": sp.Execution}}, true
	case "HeartbeatLocks":
		jsonHdr()
		return &httpReq{Method: "POST", Path: "/locks/heartbeat", Headers: hd, Body: map[string]any{"processId": sp.Process}}, true
	case "ClaimTask":
		jsonHdr()
		return &httpReq{Method: "POST", Path: "/tasks/claim", Headers: hd, Body: map[string]any{"id": sp.Id, "counter": s.resolveCounter(sp), "processId": sp.Process, "ttl": sp.Ttl}}, true
	case "CompleteTask":
		jsonHdr()
		return &httpReq{Method: "POST", Path: "/tasks/complete", Headers: hd, Body: map[string]any{"id": sp.Id, "counter": s.resolveCounter(sp)}}, true
	case "HeartbeatTasks":
		jsonHdr()
		return &httpReq{Method: "POST", Path: "/tasks/heartbeat", Headers: hd, Body: map[string]any{"processId": sp.Process}}, true
	case "SearchPromises", "SearchSchedules":
		q := url.Values{}
		if sp.Cursor {
			prev := s.cursors[client]
			if prev == nil {
				return nil, false
			}
			var tok string
			var err error
			if sp.Kind == "SearchPromises" && prev.SearchPromises != nil {
				tok, err = (&t_api.Cursor[t_api.SearchPromisesRequest]{Next: prev.SearchPromises}).Encode()
			} else if sp.Kind == "SearchSchedules" && prev.SearchSchedules != nil {
				tok, err = (&t_api.Cursor[t_api.SearchSchedulesRequest]{Next: prev.SearchSchedules}).Encode()
			} else {
				return nil, false
			}
			if err != nil {
				return nil, false
			}
			q.Set("cursor", tok)
		} else if sp.RawCursor != "" {
			// a cursor may be accompanied by search parameters (hostile combinations)
			q.Set("cursor", sp.RawCursor)
			if sp.Id != "" {
				q.Set("id", sp.Id)
			}
			if len(sp.States) == 1 && sp.Kind == "SearchPromises" {
				q.Set("state", sp.States[0])
			}
			if sp.Limit != 0 {
				q.Set("limit", strconv.Itoa(sp.Limit))
			}
		} else {
			q.Set("id", sp.Id)
			if len(sp.States) == 1 && sp.Kind == "SearchPromises" {
				q.Set("state", sp.States[0])
			}
			for k2, v := range sp.Tags {
				q.Set("tags["+k2+"]", v)
			}
			if sp.Limit != 0 {
				q.Set("limit", strconv.Itoa(sp.Limit))
			}
		}
		path := "/promises"
		if sp.Kind == "SearchSchedules" {
			path = "/schedules"
		}
		return &httpReq{Method: "GET", Path: path, Query: q, Headers: hd}, true
	case "RawHTTP":
		h := map[string]string{}
		for k2, v := range sp.Headers {
			h[k2] = v
		}
		if _, ok := h["request-id"]; !ok {
			h["request-id"] = reqId
		}
		q, _ := url.ParseQuery(sp.Cron)
		body := ""
		if sp.Data != nil {
			body = *sp.Data
		}
		return &httpReq{Method: sp.State, Path: sp.Id, Query: q, Headers: h, RawBody: &body}, true
	}
	return nil, false
}

func (h *httpReq) request() *http.Request {
	var body []byte
	if h.RawBody != nil {
		body = []byte(*h.RawBody)
	} else if h.Body != nil {
		body, _ = json.Marshal(h.Body)
	}
	req := httptest.NewRequest(h.Method, "/", bytes.NewReader(body))
	// the request target as a client library writes it: the id segment percent-escaped
	target := h.Path
	if h.IdPrefix != "" {
		target = h.IdPrefix + url.PathEscape(strings.TrimPrefix(h.Path, h.IdPrefix))
	}
	if q := h.Query.Encode(); q != "" {
		target += "?" + q
	}
	if u, err := url.ParseRequestURI(target); err == nil {
		req.URL = u
	} else {
		req.URL = &url.URL{Path: h.Path, RawQuery: h.Query.Encode()}
	}
	req.RequestURI = req.URL.RequestURI()
	for k2, v := range h.Headers {
		req.Header.Set(k2, v)
	}
	return req
}

func pbValue(h map[string]string, d *string) *pb.Value {
	v := &pb.Value{Headers: h}
	if d != nil {
		v.Data = []byte(*d)
	}
	return v
}

func pbRecv(raw string) *pb.Recv {
	var logical string
	if json.Unmarshal([]byte(raw), &logical) == nil {
		return &pb.Recv{Recv: &pb.Recv_Logical{Logical: logical}}
	}
	var obj struct {
		Type string          `json:"type"`
		Data json.RawMessage `json:"data"`
	}
	if json.Unmarshal([]byte(raw), &obj) == nil {
		return &pb.Recv{Recv: &pb.Recv_Physical{Physical: &pb.PhysicalRecv{Type: obj.Type, Data: obj.Data}}}
	}
	return nil
}

func sv(p *string) string {
	if p == nil {
		return ""
	}
	return *p
}

// grpcCall renders a request spec as a gRPC call; it returns a closure that
// performs the call on the given services.
func (s *Sim) buildGRPC(client int, sp *ReqSpec, reqId string) (func(sgrpc.Services) (proto.Message, error), bool) {
	ctx := context.Background()
	switch sp.Kind {
	case "ReadPromise":
		m := &pb.ReadPromiseRequest{Id: sp.Id, RequestId: reqId}
		return func(g sgrpc.Services) (proto.Message, error) { return g.ReadPromise(ctx, m) }, true
	case "CreatePromise":
		m := &pb.CreatePromiseRequest{Id: sp.Id, IdempotencyKey: sv(sp.IKey), Strict: sp.Strict, Param: pbValue(sp.Headers, sp.Data), Timeout: s.timeoutOf(sp), Tags: sp.Tags, RequestId: reqId}
		return func(g sgrpc.Services) (proto.Message, error) { return g.CreatePromise(ctx, m) }, true
	case "CreatePromiseAndTask":
		m := &pb.CreatePromiseAndTaskRequest{
			Promise: &pb.CreatePromiseRequest{Id: sp.Id, IdempotencyKey: sv(sp.IKey), Strict: sp.Strict, Param: pbValue(sp.Headers, sp.Data), Timeout: s.timeoutOf(sp), Tags: sp.Tags, RequestId: reqId},
			Task:    &pb.CreatePromiseTaskRequest{ProcessId: sp.Process, Ttl: int32(sp.Ttl)},
		}
		return func(g sgrpc.Services) (proto.Message, error) { return g.CreatePromiseAndTask(ctx, m) }, true
	case "CompletePromise":
		switch stateName(sp.State) {
		case "REJECTED":
			m := &pb.RejectPromiseRequest{Id: sp.Id, IdempotencyKey: sv(sp.IKey), Strict: sp.Strict, Value: pbValue(sp.Headers, sp.Data), RequestId: reqId}
			return func(g sgrpc.Services) (proto.Message, error) { return g.RejectPromise(ctx, m) }, true
		case "REJECTED_CANCELED":
			m := &pb.CancelPromiseRequest{Id: sp.Id, IdempotencyKey: sv(sp.IKey), Strict: sp.Strict, Value: pbValue(sp.Headers, sp.Data), RequestId: reqId}
			return func(g sgrpc.Services) (proto.Message, error) { return g.CancelPromise(ctx, m) }, true
		default:
			m := &pb.ResolvePromiseRequest{Id: sp.Id, IdempotencyKey: sv(sp.IKey), Strict: sp.Strict, Value: pbValue(sp.Headers, sp.Data), RequestId: reqId}
			return func(g sgrpc.Services) (proto.Message, error) { return g.ResolvePromise(ctx, m) }, true
		}
	case "CreateCallback":
		m := &pb.CreateCallbackRequest{Id: sp.Id, PromiseId: sp.PromiseId, RootPromiseId: sp.RootId, Timeout: s.timeoutOf(sp), Recv: pbRecv(sp.Recv), RequestId: reqId}
		return func(g sgrpc.Services) (proto.Message, error) { return g.CreateCallback(ctx, m) }, true
	case "CreateSubscription":
		m := &pb.CreateSubscriptionRequest{Id: sp.Id, PromiseId: sp.PromiseId, Timeout: s.timeoutOf(sp), Recv: pbRecv(sp.Recv), RequestId: reqId}
		return func(g sgrpc.Services) (proto.Message, error) { return g.CreateSubscription(ctx, m) }, true
	case "ReadSchedule":
		m := &pb.ReadScheduleRequest{Id: sp.Id, RequestId: reqId}
		return func(g sgrpc.Services) (proto.Message, error) { return g.ReadSchedule(ctx, m) }, true
	case "DeleteSchedule":
		m := &pb.DeleteScheduleRequest{Id: sp.Id, RequestId: reqId}
		return func(g sgrpc.Services) (proto.Message, error) { return g.DeleteSchedule(ctx, m) }, true
	case "CreateSchedule":
		m := &pb.CreateScheduleRequest{Id: sp.Id, Description: sp.Desc, Cron: sp.Cron, Tags: sp.Tags, PromiseId: sp.PromiseId, PromiseTimeout: sp.PromiseTimeout, PromiseParam: pbValue(sp.Headers, sp.Data), PromiseTags: sp.PromiseTags, IdempotencyKey: sv(sp.IKey), RequestId: reqId}
		return func(g sgrpc.Services) (proto.Message, error) { return g.CreateSchedule(ctx, m) }, true
	case "AcquireLock":
		m := &pb.AcquireLockRequest{ResourceId: sp.Resource, ExecutionId: sp.Execution, ProcessId: sp.Process, Ttl: sp.Ttl, RequestId: reqId}
		return func(g sgrpc.Services) (proto.Message, error) { return g.AcquireLock(ctx, m) }, true
	case "ReleaseLock":
		m := &pb.ReleaseLockRequest{ResourceId: sp.Resource, ExecutionId: sp.Execution, RequestId: reqId}
		return func(g sgrpc.Services) (proto.Message, error) { return g.ReleaseLock(ctx, m) }, true
	case "HeartbeatLocks":
		m := &pb.HeartbeatLocksRequest{ProcessId: sp.Process, RequestId: reqId}
		return func(g sgrpc.Services) (proto.Message, error) { return g.HeartbeatLocks(ctx, m) }, true
	case "ClaimTask":
		m := &pb.ClaimTaskRequest{Id: sp.Id, Counter: int32(s.resolveCounter(sp)), ProcessId: sp.Process, Ttl: int32(sp.Ttl), RequestId: reqId}
		return func(g sgrpc.Services) (proto.Message, error) { return g.ClaimTask(ctx, m) }, true
	case "CompleteTask":
		m := &pb.CompleteTaskRequest{Id: sp.Id, Counter: int32(s.resolveCounter(sp)), RequestId: reqId}
		return func(g sgrpc.Services) (proto.Message, error) { return g.CompleteTask(ctx, m) }, true
	case "HeartbeatTasks":
		m := &pb.HeartbeatTasksRequest{ProcessId: sp.Process, RequestId: reqId}
		return func(g sgrpc.Services) (proto.Message, error) { return g.HeartbeatTasks(ctx, m) }, true
	case "SearchPromises":
		m := &pb.SearchPromisesRequest{Id: sp.Id, Tags: sp.Tags, Limit: int32(sp.Limit), RequestId: reqId}
		if len(sp.States) == 1 {
			switch strings.ToLower(sp.States[0]) {
			case "pending":
				m.State = pb.SearchState_SEARCH_PENDING
			case "resolved":
				m.State = pb.SearchState_SEARCH_RESOLVED
			case "rejected":
				m.State = pb.SearchState_SEARCH_REJECTED
			}
		}
		if sp.Cursor {
			prev := s.cursors[client]
			if prev == nil || prev.SearchPromises == nil {
				return nil, false
			}
			tok, err := (&t_api.Cursor[t_api.SearchPromisesRequest]{Next: prev.SearchPromises}).Encode()
			if err != nil {
				return nil, false
			}
			m = &pb.SearchPromisesRequest{Cursor: tok, RequestId: reqId}
		} else if sp.RawCursor != "" {
			m.Cursor = sp.RawCursor
		}
		return func(g sgrpc.Services) (proto.Message, error) { return g.SearchPromises(ctx, m) }, true
	case "SearchSchedules":
		m := &pb.SearchSchedulesRequest{Id: sp.Id, Tags: sp.Tags, Limit: int32(sp.Limit), RequestId: reqId}
		if sp.Cursor {
			prev := s.cursors[client]
			if prev == nil || prev.SearchSchedules == nil {
				return nil, false
			}
			tok, err := (&t_api.Cursor[t_api.SearchSchedulesRequest]{Next: prev.SearchSchedules}).Encode()
			if err != nil {
				return nil, false
			}
			m = &pb.SearchSchedulesRequest{Cursor: tok, RequestId: reqId}
		} else if sp.RawCursor != "" {
			m.Cursor = sp.RawCursor
		}
		return func(g sgrpc.Services) (proto.Message, error) { return g.SearchSchedules(ctx, m) }, true
	case "RawGRPC":
		return s.buildRawGRPC(sp, reqId)
	}
	return nil, false
}

// invoke runs a front-end call on its own goroutine and recovers panics.
func runFront(call *frontCall, proto string, f func() *Rendered) {
	go func() {
		defer close(call.done)
		defer func() {
			if r := recover(); r != nil {
				stack := string(debug.Stack())
				call.rendered = &Rendered{Proto: proto, Panic: fmt.Sprint(r), Frame: topProductionFrame(stack)}
				if call.rendered.Frame == "" {
					call.rendered.Frame = "harness:" + firstLine(stack)
				}
			}
		}()
		call.rendered = f()
	}()
}

func firstLine(s string) string {
	if i := strings.Index(s, "\n"); i >= 0 {
		return s[:i]
	}
	return s
}

func renderHTTP(h http.Handler, req *http.Request) *Rendered {
	rec := httptest.NewRecorder()
	h.ServeHTTP(rec, req)
	return &Rendered{Proto: "http", HTTPStatus: rec.Code, Body: rec.Body.Bytes()}
}

func renderGRPC(g sgrpc.Services, f func(sgrpc.Services) (proto.Message, error)) *Rendered {
	msg, err := f(g)
	r := &Rendered{Proto: "grpc", GrpcMsg: msg, GrpcCode: codes.OK}
	if err != nil {
		st, _ := status.FromError(err)
		r.GrpcCode = st.Code()
		r.GrpcErr = st.Message()
		r.GrpcMsg = nil
	}
	return r
}

// stepReqFront submits a request through a front end.
func (s *Sim) stepReqFront(st *Step) bool {
	sp := st.Req
	if sp.Synth != nil {
		return s.stepReqSynth(st)
	}
	if s.fronts == nil {
		fr, err := newFronts(&frontAPI{API: s.api, sim: s})
		if err != nil {
			panic("harness: front ends: " + err.Error())
		}
		s.fronts = fr
	}
	idx := len(s.Reqs)
	tag := fmt.Sprintf("r%d", idx)
	call := &frontCall{enq: make(chan *apiSQE), done: make(chan struct{})}
	switch sp.Proto {
	case "http":
		hr, ok := s.buildHTTP(st.Client, sp, tag)
		if !ok {
			return false
		}
		req := hr.request()
		s.curCall = call
		runFront(call, "http", func() *Rendered { return renderHTTP(s.fronts.http, req) })
	case "grpc":
		f, ok := s.buildGRPC(st.Client, sp, tag)
		if !ok {
			return false
		}
		s.curCall = call
		runFront(call, "grpc", func() *Rendered { return renderGRPC(s.fronts.grpc, f) })
	default:
		return false
	}
	rec := &ReqRec{Idx: idx, Client: st.Client, Spec: sp, Step: s.stepNo, InvokeEv: s.nextEv(), TCall: s.Now, Boot: s.boot, Tag: tag, Front: call}
	s.Reqs = append(s.Reqs, rec)
	select {
	case sqe := <-call.enq:
		rec.Req = sqe.Submission
		s.reqByTag[tag] = rec
		s.logf("REQ %s via %s %s", tag, sp.Proto, rec.Req)
		orig := sqe.Callback
		sqe.Callback = func(res *t_api.Response, err error) {
			rec.Responses++
			if rec.Responses > 1 {
				s.violate("C12.twice", []string{"C12"}, rec.Req.Kind.String(), "second response", fmt.Sprintf("request %s answered %d times", tag, rec.Responses))
				return
			}
			rec.Res, rec.Err = res, err
			rec.RespEv = s.nextEv()
			rec.TResp = s.Now
			orig(res, err)
			<-call.done // the handler renders the reply and returns
			s.logf("RES %s status=%d rendered=%s", tag, rec.Status(), call.rendered.summary())
			s.onResponse(rec)
			s.rules.onRendered(rec, call.rendered)
		}
		s.api.EnqueueSQE(sqe)
	case <-call.done:
		// the front end answered without reaching the kernel
		rec.Responses = 1
		rec.RespEv = s.Ev
		rec.TResp = s.Now
		rec.FrontOnly = true
		s.logf("REQ %s via %s answered by the front end: %s", tag, sp.Proto, call.rendered.summary())
		s.rules.onFrontOnly(rec, call.rendered)
	}
	s.curCall = nil
	// the kernel request must be what the client asked for (the simulator's own builder is the
	// reference for well-formed specs other than searches, whose cursors carry server state)
	if rec.Req != nil && sp.Kind != "RawHTTP" && sp.Kind != "RawGRPC" && sp.Kind != "SearchPromises" && sp.Kind != "SearchSchedules" && !s.frontsMayDiffer(sp) {
		if want, aerr, ok := s.build(st.Client, sp); ok && aerr == nil && want != nil {
			if a, b := reqSig(want), reqSig(rec.Req); a != b {
				s.violate("C15.request_differs_from_intent", append(P("C15", "C20"), ownersOf(sp.Kind)...), sp.Kind, "the front end handed the kernel another request than the client sent", fmt.Sprintf("via %s: kernel got %s\nclient sent %s", sp.Proto, b, a))
			}
		}
	}
	// translation shadow: the other protocol must produce the same kernel request
	if rec.Req != nil && sp.Kind != "RawHTTP" && sp.Kind != "RawGRPC" {
		s.shadow(st.Client, rec)
	}
	return true
}

func (r *Rendered) summary() string {
	if r == nil {
		return "<nil>"
	}
	if r.Panic != "" {
		return "PANIC " + r.Panic
	}
	if r.Proto == "http" {
		b := string(r.Body)
		if len(b) > 200 {
			b = b[:200]
		}
		return fmt.Sprintf("http %d %s", r.HTTPStatus, b)
	}
	if r.GrpcMsg != nil {
		b, _ := protojson.Marshal(r.GrpcMsg)
		if len(b) > 200 {
			b = b[:200]
		}
		return fmt.Sprintf("grpc %s %s", r.GrpcCode, b)
	}
	return fmt.Sprintf("grpc %s %s", r.GrpcCode, r.GrpcErr)
}

// shadow renders the same spec through the other protocol against a capture
// api and compares the kernel requests.
func (s *Sim) shadow(client int, rec *ReqRec) {
	sp := rec.Spec
	cap := &captureAPI{}
	fr, err := newFronts(cap)
	if err != nil {
		return
	}
	var rend *Rendered
	func() {
		defer func() {
			if r := recover(); r != nil {
				rend = &Rendered{Panic: fmt.Sprint(r), Frame: topProductionFrame(string(debug.Stack()))}
			}
		}()
		if sp.Proto == "http" {
			if f, ok := s.buildGRPC(client, sp, rec.Tag); ok {
				rend = renderGRPC(fr.grpc, f)
			}
		} else {
			if hr, ok := s.buildHTTP(client, sp, rec.Tag); ok {
				rend = renderHTTP(fr.http, hr.request())
			}
		}
	}()
	if rend == nil {
		return
	}
	if rend.Panic != "" {
		s.violate("panic", P("C13", "C15"), "front:"+sp.Kind, rend.Panic, "shadow translation panicked")
		return
	}
	if cap.got == nil {
		// the other front end refused what this one accepted
		s.Probes["shadow_refused"]++
		if !s.frontsMayDiffer(sp) {
			s.violate("C15.translation_refused", P("C15"), sp.Kind, "one protocol accepts what the other refuses", fmt.Sprintf("%s via %s reached the kernel, the other front end answered %s", sp.Kind, sp.Proto, rend.summary()))
		}
		return
	}
	a, b := reqSig(rec.Req), reqSig(cap.got)
	if a != b {
		s.violate("C15.translation", append(P("C15", "C20"), ownersOf(sp.Kind)...), sp.Kind, "protocols translate to different kernel requests", fmt.Sprintf("%s: %s\nother: %s", sp.Proto, a, b))
	}
	s.Probes["shadow_compared"]++
}

// ownersOf names the properties whose statement is about an operation: a front end that hands
// the kernel something other than what the client asked for breaks them as well.
func ownersOf(kind string) []string {
	switch kind {
	case "CreatePromise", "CreatePromiseAndTask", "CompletePromise":
		return []string{"C03", "C02"}
	case "ReadPromise":
		return []string{"C02"}
	case "CreateCallback", "CreateSubscription":
		return []string{"C05", "C02"}
	case "ClaimTask", "CompleteTask", "HeartbeatTasks":
		return []string{"C07", "C02"}
	case "AcquireLock", "ReleaseLock", "HeartbeatLocks":
		return []string{"C09", "C02"}
	case "CreateSchedule", "ReadSchedule", "DeleteSchedule":
		return []string{"C10", "C02"}
	case "SearchPromises", "SearchSchedules":
		return []string{"C14"}
	}
	return nil
}

// frontsMayDiffer: inputs for which the two wire formats legitimately differ
// (HTTP cannot express a zero counter or an empty required field).
func (s *Sim) frontsMayDiffer(sp *ReqSpec) bool {
	if sp.RawCursor != "" {
		// hand-made cursors come with out-of-range parameters: not a well-formed request, the
		// HTTP binding refuses what gRPC ignores next to a cursor
		return true
	}
	switch sp.Kind {
	case "ClaimTask", "CompleteTask":
		return s.resolveCounter(sp) == 0 || sp.Process == "" && sp.Kind == "ClaimTask"
	}
	return false
}

// reqSig is a canonical form of a kernel request without protocol tags.
func reqSig(r *t_api.Request) string {
	c := *r
	c.Tags = nil
	b, _ := json.Marshal(&c)
	var v any
	_ = json.Unmarshal(b, &v)
	v = dropEmpty(v)
	out, _ := json.Marshal(v)
	return r.Kind.String() + " " + string(out)
}

// dropEmpty removes nulls, empty maps, empty strings and empty arrays so
// that "absent" and "empty" compare equal.
func dropEmpty(v any) any {
	switch x := v.(type) {
	case map[string]any:
		for k2, e := range x {
			e = dropEmpty(e)
			if e == nil {
				delete(x, k2)
			} else {
				x[k2] = e
			}
		}
		if len(x) == 0 {
			return nil
		}
		return x
	case []any:
		if len(x) == 0 {
			return nil
		}
		for i := range x {
			x[i] = dropEmpty(x[i])
		}
		return x
	case string:
		if x == "" {
			return nil
		}
	case bool:
		if !x {
			return nil
		}
	case float64:
		if x == 0 {
			return nil
		}
	}
	return v
}
