package k

import (
	"net/http"
	"encoding/json"
	"fmt"
	"net/url"
	"os"
	"strings"
	"time"

	"github.com/robfig/cron/v3"

	"github.com/resonatehq/resonate/internal/kernel/t_aio"
	"github.com/resonatehq/resonate/internal/kernel/t_api"

	"github.com/resonatehq/resonate/verif/sim/tables"
)

func osStat(p string) (os.FileInfo, error) { return os.Stat(p) }

// ------------------------------------------------------------------ schedules

var cronParser = cron.NewParser(cron.SecondOptional | cron.Minute | cron.Hour | cron.Dom | cron.Month | cron.Dow | cron.Descriptor)

// CronNext is the harness's own walk over cron occurrences (robfig/cron is
// trusted for "which instants are occurrences").
func CronNext(expr string, afterMs int64) (int64, bool) {
	sch, err := cronParser.Parse(expr)
	if err != nil {
		return 0, false
	}
	n := sch.Next(time.Unix(0, afterMs*int64(time.Millisecond)))
	if n.IsZero() {
		return 0, false
	}
	return n.UnixMilli(), true
}

// expandTemplate substitutes the two documented variables literally.
func expandTemplate(tpl, id string, ts int64) (string, bool) {
	// one pass, left to right: substituted text is never rescanned
	var sb strings.Builder
	rest := tpl
	for {
		i := strings.Index(rest, "{{")
		if i < 0 {
			break
		}
		sb.WriteString(rest[:i])
		switch {
		case strings.HasPrefix(rest[i:], "{{.id}}"):
			sb.WriteString(id)
			rest = rest[i+len("{{.id}}"):]
		case strings.HasPrefix(rest[i:], "{{.timestamp}}"):
			sb.WriteString(fmt.Sprint(ts))
			rest = rest[i+len("{{.timestamp}}"):]
		default:
			return "", false // some other template action: not judged
		}
	}
	if strings.Contains(rest, "}}") {
		return "", false
	}
	sb.WriteString(rest)
	return sb.String(), true
}

func scheduleImmutableSig(x *tables.Schedule) string {
	c := *x
	c.LastRunTime, c.NextRunTime = nil, 0
	return c.String()
}

func (r *ruleState) scheduleRules(tr *TxRec, req *ReqRec, pre, post *tables.Tables) {
	s := r.s
	clock := tr.Clock
	for _, id := range tables.SortedKeys(pre.Schedules) {
		a := pre.Schedules[id]
		b := post.Schedules[id]
		if b == nil {
			if req == nil || req.Req.Kind != t_api.DeleteSchedule || req.Req.DeleteSchedule.Id != id {
				s.violate("T13.vanished", P("C10", "C06"), "schedule", "schedule row removed by something other than its deletion", fmt.Sprintf("%s by %s", a, tr.Name))
			}
			r.schedDeleted[id] = s.Ev
			s.Probes["schedule_deleted"]++
			continue
		}
		if a.Eq(b) {
			continue
		}
		if scheduleImmutableSig(a) != scheduleImmutableSig(b) {
			s.violate("T13.fields_changed", P("C10", "C20"), "schedule", "schedule fields changed", fmt.Sprintf("%s -> %s", a, b))
			continue
		}
		// a firing: (.., o_k) -> (o_k, o_k+1)
		ok := a.NextRunTime
		if tr.Name != "SchedulePromises" {
			s.violate("T13.advanced_by", P("C10"), "schedule", "schedule advanced by something other than the firing cycle", fmt.Sprintf("%s -> %s by %s", a, b, tr.Name))
		}
		if b.LastRunTime == nil || *b.LastRunTime != ok {
			s.violate("T13.last_run", P("C10"), "schedule", "last run time is not the occurrence fired", fmt.Sprintf("%s -> %s", a, b))
		}
		if nx, valid := CronNext(a.Cron, ok); valid && b.NextRunTime != nx {
			s.violate("T13.next_run", P("C10"), "schedule", "next run time is not the next occurrence", fmt.Sprintf("cron %q after %d is %d: %s -> %s", a.Cron, ok, nx, a, b))
		}
		// (an "@every d" schedule has no absolute occurrences: each one is d after the previous)
		if at, valid := CronNext(a.Cron, ok-1); !strings.HasPrefix(strings.TrimSpace(a.Cron), "@every") && (!valid || at != ok) {
			s.violate("T13.not_an_occurrence", P("C10"), "schedule", "fired at an instant that is not an occurrence of the cron expression", fmt.Sprintf("cron %q has no occurrence at %d: %s -> %s", a.Cron, ok, a, b))
		}
		if clock < ok {
			s.violate("T13.early", P("C10"), "schedule", "fired before the occurrence time", fmt.Sprintf("clock %d < %d: %s", clock, ok, a))
		}
		s.Probes["schedule_fired"]++
		// the occurrence's promise
		pid, simple := expandTemplate(a.PromiseId, a.Id, ok)
		if !simple {
			s.Probes["schedule_template_not_literal"]++
			continue
		}
		p := post.Promises[pid]
		if p == nil {
			s.violate("T13.no_promise", P("C10", "C06", "C20"), "schedule", "schedule advanced without the occurrence's promise", fmt.Sprintf("expected promise %q after %s -> %s", pid, a, b))
			continue
		}
		if pre.Promises[pid] != nil {
			s.Probes["schedule_promise_preexisting"]++
			continue
		}
		wantTags := map[string]string{}
		if a.PromiseTags != nil {
			_ = json.Unmarshal([]byte(*a.PromiseTags), &wantTags)
		}
		wantTags["resonate:schedule"] = a.Id
		wantTags["resonate:invocation"] = "true"
		if p.Timeout != ok+a.PromiseTimeout || p.State != 1 || normJSONMap(p.Tags) != normMap(wantTags) ||
			normJSONMap(p.ParamHeaders) != normJSONMap(a.PromiseParamHeaders) || sderef(p.ParamData) != sderef(a.PromiseParamData) || p.IkCreate != nil {
			s.violate("T13.promise_fields", P("C10", "C20"), "schedule", "scheduled promise does not carry the schedule's configuration", fmt.Sprintf("%s for occurrence %d of %s", p, ok, a))
		}
	}
	// the converse: an occurrence's promise is created in the step that advances the schedule
	if tr.Name == "SchedulePromises" {
		for _, pid := range tables.SortedKeys(post.Promises) {
			if pre.Promises[pid] != nil {
				continue
			}
			p := post.Promises[pid]
			sid, _ := tagOf(p, "resonate:schedule")
			a, b := pre.Schedules[sid], post.Schedules[sid]
			if sid == "" || a == nil || b == nil {
				continue
			}
			if a.Eq(b) && p.Timeout == tables.AddSat(a.NextRunTime, a.PromiseTimeout) {
				s.violate("T13.promise_without_advance", P("C10", "C06"), "schedule", "occurrence's promise created without advancing the schedule in the same step", fmt.Sprintf("promise %q for occurrence %d of %s", pid, a.NextRunTime, a))
			}
		}
	}
	for _, id := range tables.SortedKeys(post.Schedules) {
		if pre.Schedules[id] != nil {
			continue
		}
		b := post.Schedules[id]
		if req == nil || req.Req.Kind != t_api.CreateSchedule || req.Req.CreateSchedule.Id != id {
			s.violate("T13.from_nowhere", P("C10"), "schedule", "schedule row created by something other than its creation request", b.String())
			continue
		}
		c := req.Req.CreateSchedule
		if b.CreatedOn < req.TCall || b.CreatedOn > clock || b.LastRunTime != nil {
			s.violate("T13.created_on", P("C10"), "schedule", "creation time outside the request interval", fmt.Sprintf("[%d,%d]: %s", req.TCall, clock, b))
		}
		if nx, valid := CronNext(b.Cron, b.CreatedOn); valid && b.NextRunTime != nx {
			s.violate("T13.first_run", P("C10"), "schedule", "first run time is not the first occurrence after creation", fmt.Sprintf("expected %d: %s", nx, b))
		}
		if b.Cron != c.Cron || b.PromiseId != c.PromiseId || b.PromiseTimeout != c.PromiseTimeout || sderef(b.Description) != c.Description ||
			normJSONMap(b.Tags) != normMap(c.Tags) || normJSONMap(b.PromiseTags) != normMap(c.PromiseTags) ||
			normJSONMap(b.PromiseParamHeaders) != normMap(c.PromiseParam.Headers) || sderef(b.PromiseParamData) != string(c.PromiseParam.Data) || keyStr(b.IdempotencyKey) != keyStr(c.IdempotencyKey) {
			s.violate("T13.created_fields", P("C10", "C20"), "schedule", "stored schedule differs from the request", fmt.Sprintf("%s vs %s", b, c))
		}
		delete(r.schedDeleted, id)
		s.Probes["schedule_created"]++
	}
}

// ------------------------------------------------------------------ dispatch

type cycleInfo struct {
	state *tables.Tables
	roots map[string]bool
}

func (r *ruleState) cycle(tag string) *cycleInfo {
	if r.cycles == nil {
		r.cycles = map[string]*cycleInfo{}
	}
	return r.cycles[tag]
}

// noteCycleReads remembers the state each dispatch cycle read.
// batchRead is one read of a background coroutine during the convergence window: which rows
// it returned and whether its batch had room for more.
type batchRead struct {
	time int64
	room bool
	ids  map[string]bool // task ids (sweep) or root promise ids (dispatcher)
}

func (r *ruleState) noteCycleReads(before *tables.Tables, recs []*TxRec) {
	if r.quiescing {
		for _, tr := range recs {
			for j, c := range tr.Tx.Commands {
				if j >= len(tr.Results) || tr.Results[j] == nil {
					continue
				}
				switch c.Kind {
				case t_aio.ReadTasks:
					if res := tr.Results[j].ReadTasks; res != nil && tr.Name == "TimeoutTasks" {
						br := &batchRead{time: c.ReadTasks.Time, room: int(res.RowsReturned) < c.ReadTasks.Limit, ids: map[string]bool{}}
						for _, rec := range res.Records {
							br.ids[rec.Id] = true
						}
						r.sweepReads = append(r.sweepReads, br)
					}
				case t_aio.ReadEnqueueableTasks:
					if res := tr.Results[j].ReadEnqueueableTasks; res != nil {
						br := &batchRead{time: c.ReadEnquableTasks.Time, room: int(res.RowsReturned) < c.ReadEnquableTasks.Limit, ids: map[string]bool{}}
						for _, rec := range res.Records {
							br.ids[rec.RootPromiseId] = true
						}
						r.dispatchReads = append(r.dispatchReads, br)
					}
				}
			}
		}
	}
	for i, tr := range recs {
		for _, c := range tr.Tx.Commands {
			if c.Kind != t_aio.ReadEnqueueableTasks {
				continue
			}
			st := tr.Pre
			if st == nil {
				if i == 0 {
					st = before
				} else {
					continue
				}
			}
			if r.cycles == nil {
				r.cycles = map[string]*cycleInfo{}
			}
			r.cycles[tr.Tag] = &cycleInfo{state: st, roots: map[string]bool{}}
		}
	}
}

// resolve is the independent receiver resolution of statement C19.
func (s *Sim) resolve(recv *string) (typ string, data string, ok bool) {
	if recv == nil {
		return "", "", false
	}
	var logical string
	if err := json.Unmarshal([]byte(*recv), &logical); err == nil {
		for _, t := range s.Cfg.Targets {
			if t.Name == logical {
				return t.Type, compactJSON(t.Data), true
			}
		}
		if logical == "default" {
			return "poll", `{"group":"default"}`, true
		}
		u, err := url.Parse(logical)
		if err != nil {
			return "", "", false
		}
		switch u.Scheme {
		case "http", "https":
			b, _ := json.Marshal(map[string]string{"url": logical})
			return "http", string(b), true
		case "poll":
			m := map[string]string{"group": u.Host}
			if id := strings.TrimPrefix(u.Path, "/"); id != "" {
				m["id"] = id
			}
			b, _ := json.Marshal(m)
			return "poll", string(b), true
		}
		return "", "", false
	}
	var obj struct {
		Type string          `json:"type"`
		Data json.RawMessage `json:"data"`
	}
	if err := json.Unmarshal([]byte(*recv), &obj); err != nil {
		return "", "", false
	}
	if len(obj.Data) == 0 {
		// no data member: the transport is handed an empty address
		return obj.Type, "", true
	}
	return obj.Type, compactJSON(obj.Data), true
}

func jsonEqual(a, b string) bool {
	var x, y any
	if json.Unmarshal([]byte(a), &x) != nil || json.Unmarshal([]byte(b), &y) != nil {
		return a == b
	}
	return jsonStr(x) == jsonStr(y)
}

func (r *ruleState) onSend(rec *SendRec) {
	s := r.s
	ci := r.cycle(rec.Cycle)
	var row *tables.Task
	if ci != nil {
		row = ci.state.Tasks[rec.TaskId]
		if row == nil {
			s.violate("C08.dispatch_unknown", P("C08"), "dispatch", "dispatched a task that was not stored", fmt.Sprintf("%s in cycle %s", rec.TaskId, rec.Cycle))
			return
		}
		if row.State != 1 {
			s.violate("C08.dispatch_not_init", P("C08"), "dispatch", fmt.Sprintf("dispatched a task in state %d", row.State), row.String())
		}
		if int64(rec.Counter) != row.Counter {
			s.violate("C08.dispatch_counter", P("C08", "C07"), "dispatch", "dispatched with a counter other than the stored one", fmt.Sprintf("sent %d: %s", rec.Counter, row))
		}
		if ci.roots[row.RootPromiseId] {
			s.violate("C08.dispatch_two_per_root", P("C08"), "dispatch", "two tasks of one root in one cycle", row.String())
		}
		ci.roots[row.RootPromiseId] = true
		for _, o := range ci.state.Tasks {
			if o.RootPromiseId == row.RootPromiseId && o.Id != row.Id && (o.State == 2 || o.State == 4) {
				s.violate("C08.dispatch_busy_root", P("C08"), "dispatch", "dispatched while a sibling is enqueued or claimed", fmt.Sprintf("%s while %s", row, o))
			}
		}
		s.Probes["dispatch_checked"]++
	} else {
		s.Probes["dispatch_cycle_unknown"]++
	}
	if rec.Pre {
		return
	}
	// the message this submission produced (if any)
	var msg *MsgRec
	if n := len(s.Msgs); n > 0 && s.Msgs[n-1].Ev > rec.Ev && s.Msgs[n-1].TaskId == rec.TaskId {
		msg = s.Msgs[n-1]
	}
	if row == nil {
		return
	}
	typ, data, ok := s.resolve(row.Recv)
	known := ok && (typ == "http" || typ == "poll")
	if !known {
		if msg != nil {
			s.violate("C19.misdirected", P("C19"), "dispatch", "message handed to a transport although the address does not resolve", fmt.Sprintf("recv %s -> %s %s", tables.S(row.Recv), msg.Plugin, msg.Data))
		}
		if rec.Success {
			s.violate("C19.unknown_success", P("C19", "C08"), "dispatch", "hand-off to an unresolvable address reported as success", tables.S(row.Recv))
		}
		s.Probes["handoff_unresolvable"]++
		return
	}
	if msg == nil {
		s.violate("C19.dropped", P("C19", "C08"), "dispatch", "resolvable address but no message handed to the transport", fmt.Sprintf("recv %s", tables.S(row.Recv)))
		return
	}
	if msg.Plugin != typ || !jsonEqual(msg.Data, data) {
		s.violate("C19.wrong_transport", P("C19"), "dispatch", "message handed to another transport or address", fmt.Sprintf("recv %s: expected %s %s, got %s %s", tables.S(row.Recv), typ, data, msg.Plugin, msg.Data))
	}
	if msg.Plugin == "http" && msg.Reached {
		// the request that went out must be the one the address describes: its url, its headers
		// (plus the content type the transport sets), nothing left over from another message
		var addr struct {
			Url     string            `json:"url"`
			Headers map[string]string `json:"headers"`
		}
		_ = json.Unmarshal([]byte(data), &addr)
		wantH := map[string]string{"Content-Type": "application/json"}
		for k, v := range addr.Headers {
			if ck := http.CanonicalHeaderKey(k); ck != "Content-Type" {
				wantH[ck] = v
			}
		}
		if u, err := url.Parse(addr.Url); err != nil || u.String() != msg.SentURL || normMap(wantH) != normMap(msg.SentHeaders) {
			s.violate("C19.http_request", P("C19"), "dispatch", "the http request is not the one the address describes", fmt.Sprintf("recv %s: sent POST %s %s, expected %s %s", tables.S(row.Recv), msg.SentURL, normMap(msg.SentHeaders), addr.Url, normMap(wantH)))
		}
	}
	want := msg.Outcome == "ok"
	if rec.Success != want && !rec.Post {
		s.violate("C19.outcome", P("C19", "C08"), "dispatch", "hand-off outcome not reported faithfully", fmt.Sprintf("transport said %s, sender reported success=%v err=%q", msg.Outcome, rec.Success, rec.Err))
	}
	// body
	mt := mesgType(row)
	if msg.Type != mt {
		s.violate("C19.body_type", P("C19"), "dispatch", "message type differs from the task's", fmt.Sprintf("%s vs %s", msg.Type, mt))
	}
	if mt != "notify" {
		var body struct {
			Type string `json:"type"`
			Task struct {
				Id      string `json:"id"`
				Counter int64  `json:"counter"`
			} `json:"task"`
			Href map[string]string `json:"href"`
		}
		if err := json.Unmarshal([]byte(msg.Body), &body); err != nil {
			s.violate("C19.body", P("C19"), "dispatch", "malformed body", msg.Body)
			return
		}
		base := s.Cfg.Url
		wc := fmt.Sprintf("%s/tasks/claim/%s/%d", base, row.Id, row.Counter)
		wd := fmt.Sprintf("%s/tasks/complete/%s/%d", base, row.Id, row.Counter)
		wh := fmt.Sprintf("%s/tasks/heartbeat/%s/%d", base, row.Id, row.Counter)
		if body.Type != mt || body.Task.Id != row.Id || body.Task.Counter != row.Counter || body.Href["claim"] != wc || body.Href["complete"] != wd || body.Href["heartbeat"] != wh {
			s.violate("C19.body_task", P("C19", "C08", "C20"), "dispatch", "body does not name the task id, counter and links of that exact task", fmt.Sprintf("%s for %s", msg.Body, row))
		}
	}
	s.Probes["handoff_"+msg.Outcome]++
}

func (r *ruleState) dispatchOnMessage(m *MsgRec) {}

func (r *ruleState) onRouter(sqe *aioSQE, cqe *aioCQE) {}

// ---------------------------------------------------------------- convergence

func (r *ruleState) onQuiesceStart() {
	s := r.s
	r.quiescing = true
	r.quiesceStartEv = s.Ev
	r.sweepReads, r.dispatchReads = nil, nil
	r.q0roots = map[string]bool{}
	busy := map[string]bool{}
	for _, t := range s.Last.Tasks {
		if t.State == 2 || t.State == 4 {
			busy[t.RootPromiseId] = true
		}
	}
	for _, t := range s.Last.Tasks {
		if t.State == 1 && !busy[t.RootPromiseId] {
			r.q0roots[t.RootPromiseId] = true
		}
	}
}

func ceilDiv(a, b int) int {
	if b <= 0 {
		b = 1
	}
	return (a + b - 1) / b
}

// schedulePeriod estimates the distance between occurrences.
func schedulePeriod(sc *tables.Schedule) int64 {
	n1, ok := CronNext(sc.Cron, sc.NextRunTime)
	if !ok {
		return 0
	}
	return n1 - sc.NextRunTime
}

// convergenceBudget computes how many fault-free background periods the
// server is granted, from the backlog visible in the committed state.
func (r *ruleState) convergenceBudget() int {
	s := r.s
	cfg := s.Cfg
	now := s.Now
	step := cfg.SignalTimeoutMs
	if step <= 0 {
		step = 1
	}
	overdue, locks, tasks := 0, 0, 0
	for _, p := range s.Last.Promises {
		if p.State == 1 {
			overdue++ // every pending promise may become overdue during the window
		}
	}
	for range s.Last.Locks {
		locks++
	}
	roots := map[string]bool{}
	for _, t := range s.Last.Tasks {
		if t.State == 1 || t.State == 2 || t.State == 4 {
			tasks++
			roots[t.RootPromiseId] = true
		}
	}
	tasks += len(s.Last.Callbacks)
	sched := 0
	r.fastSchedules = map[string]bool{}
	// with more schedules than the firing cycle takes per period a schedule gets its turn only every
	// ceil(n/batch) periods
	turn := step * int64(ceilDiv(len(s.Last.Schedules), cfg.ScheduleBatch))
	for id, sc := range s.Last.Schedules {
		per := schedulePeriod(sc)
		if per <= 0 {
			continue
		}
		if per <= 2*turn {
			// occurrences arrive at least half as fast as cycles: catching up is not bounded
			r.fastSchedules[id] = true
			continue
		}
		due := 0
		if sc.NextRunTime <= now {
			due = int((now-sc.NextRunTime)/per) + 1
		}
		// while catching up, new occurrences keep arriving
		need := due*2 + 2
		if need > sched {
			sched = need
		}
	}
	nSched := len(s.Last.Schedules)
	cycles := 3*(ceilDiv(overdue, cfg.PromiseBatch)+ceilDiv(tasks, cfg.TaskBatch)*2+locks) + sched*ceilDiv(nSched, cfg.ScheduleBatch) + 20
	// every background coroutine must get its turn even when the pool is tiny
	if cfg.Coroutines < len(BackgroundNames) {
		cycles *= len(BackgroundNames)
	}
	r.budgetCapped = false
	if cycles > 150 {
		// the backlog needs more cycles than a run can afford: grant what fits
		// and do not judge convergence of this run
		cycles = 150
		r.budgetCapped = true
	}
	return cycles
}

// cfgClass names the extreme configuration knobs of a run (part of the
// fingerprint of convergence violations).
func (s *Sim) cfgClass() string {
	var parts []string
	if s.Cfg.AioSize <= 2 || s.Cfg.StoreQ <= 2 {
		parts = append(parts, "tinyq")
	}
	if s.Cfg.Coroutines < len(BackgroundNames) {
		parts = append(parts, "pool<5")
	}
	if s.Cfg.TaskBatch <= 3 {
		parts = append(parts, "tb<=3")
	}
	// a registration whose derived task id is already taken by a task: its promise can neither
	// be completed nor time out (the conversion's insert violates the key), and every store batch
	// that contains the attempt fails as a whole
	if s.Last != nil {
		for id := range s.Last.Callbacks {
			if s.Last.Tasks[id] != nil {
				parts = append(parts, "collision")
				break
			}
		}
	}
	if len(parts) == 0 {
		return "sizes>=2"
	}
	return strings.Join(parts, ",")
}

// backlog measures the work the background coroutines still owe (0 = the
// convergence predicate holds). Firing an occurrence may create an overdue
// promise, so occurrences count twice.
func (r *ruleState) backlog() int {
	s := r.s
	step := s.Cfg.SignalTimeoutMs
	if step <= 0 {
		step = 1
	}
	now := s.Now - 2*step
	n := 0
	if s.bgEnabled("TimeoutPromises") {
		for _, p := range s.Last.Promises {
			if p.State == 1 && p.Timeout <= now && (p.CreatedOn == nil || *p.CreatedOn <= now) {
				n++
			}
		}
	}
	if s.bgEnabled("TimeoutLocks") {
		for _, l := range s.Last.Locks {
			if l.ExpiresAt <= now {
				n++
			}
		}
	}
	if s.bgEnabled("SchedulePromises") {
		for _, sc := range s.Last.Schedules {
			per := schedulePeriod(sc)
			if per <= 0 || per <= 2*step || sc.NextRunTime > now {
				continue
			}
			n += 2 * (int((now-sc.NextRunTime)/per) + 1)
		}
	}
	if s.bgEnabled("TimeoutTasks") {
		for _, t := range s.Last.Tasks {
			if (t.State == 2 || t.State == 4) && (t.ExpiresAt <= now || t.Timeout <= now) {
				n++
			}
		}
	}
	if s.bgEnabled("EnqueueTasks") && s.bgEnabled("TimeoutTasks") {
		for root := range r.q0roots {
			if r.rootMoved[root] {
				continue
			}
			for _, t := range s.Last.Tasks {
				if t.RootPromiseId == root && t.State == 1 && t.Timeout > s.Now {
					n++
					break
				}
			}
		}
	}
	if s.pendingWork() {
		n++
	}
	return n
}

func (r *ruleState) onQuiesceEnd(rounds int) {
	s := r.s
	r.quiescing = false
	if !s.alive {
		return
	}
	step := s.Cfg.SignalTimeoutMs
	if step <= 0 {
		step = 1
	}
	// whatever became due during the last two background periods may still be in progress
	now := s.Now - 2*step
	last := s.Last
	if r.budgetCapped {
		s.Probes["convergence_budget_capped"]++
		return
	}
	if s.pendingWork() || s.sys == nil {
		s.violate("C11.not_quiescent", r.c11props("C12"), "kernel", "queues not empty after the convergence window ["+s.cfgClass()+"]", "")
	}
	// a schedule whose occurrences arrive about as fast as firing cycles creates, cycle after
	// cycle, promises that are overdue the moment they are stored (their deadline counts from the
	// occurrence it is still catching up with); when the time-out sweep's batch is not larger than
	// what such schedules create per cycle the system is not quiet and the sweep (LIMIT without
	// ORDER BY) is never ahead: convergence of promises is not judged then
	fastCreators := 0
	if s.bgEnabled("SchedulePromises") {
		for _, sc := range last.Schedules {
			if per := schedulePeriod(sc); per > 0 && per <= 2*step {
				fastCreators++
			}
		}
		if fastCreators > s.Cfg.ScheduleBatch {
			fastCreators = s.Cfg.ScheduleBatch
		}
	}
	if fastCreators > 0 && s.Cfg.PromiseBatch <= fastCreators {
		s.Probes["promise_rate_too_high_skipped"]++
	} else if s.bgEnabled("TimeoutPromises") {
		for _, id := range tables.SortedKeys(last.Promises) {
			p := last.Promises[id]
			if p.State == 1 && p.Timeout <= now && (p.CreatedOn == nil || *p.CreatedOn <= now) {
				s.violate("C11.promise_overdue", r.c11props("C04"), "promise", "pending past its timeout after the convergence window ["+s.cfgClass()+"]", fmt.Sprintf("now %d rounds %d: %s", now, rounds, p))
				break
			}
		}
	}
	if s.bgEnabled("TimeoutLocks") {
		for _, id := range tables.SortedKeys(last.Locks) {
			l := last.Locks[id]
			if l.ExpiresAt <= now {
				s.violate("C11.lock_overdue", r.c11props("C09"), "lock", "lock past its lease after the convergence window ["+s.cfgClass()+"]", fmt.Sprintf("now %d rounds %d: %s", now, rounds, l))
				break
			}
		}
	}
	// a schedule whose occurrences arrive about as fast as firing cycles never catches up and,
	// being the most overdue, is always served first: with a batch smaller than the number of
	// schedules it keeps the others waiting as well
	// occurrences that arrive at least half as fast as a schedule gets its turn (every ceil(n/batch)
	// periods) are an overload the configuration brings on itself: catching up is not bounded
	turn := step * int64(ceilDiv(len(last.Schedules), s.Cfg.ScheduleBatch))
	hog := false
	for _, sc := range last.Schedules {
		if per := schedulePeriod(sc); per > 0 && per <= 2*turn && len(last.Schedules) > s.Cfg.ScheduleBatch {
			hog = true
		}
	}
	if hog {
		s.Probes["schedule_rate_too_high_skipped"]++
	}
	if s.bgEnabled("SchedulePromises") && !hog {
		for _, id := range tables.SortedKeys(last.Schedules) {
			sc := last.Schedules[id]
			if per := schedulePeriod(sc); r.fastSchedules[id] || (per > 0 && per <= 2*turn) {
				s.Probes["schedule_rate_too_high_skipped"]++
				continue
			}
			if _, ok := CronNext(sc.Cron, sc.NextRunTime); !ok {
				continue
			}
			if sc.NextRunTime <= now {
				s.violate("C11.schedule_overdue", r.c11props("C10"), "schedule", "next run time in the past after the convergence window ["+s.cfgClass()+"]", fmt.Sprintf("now %d rounds %d: %s", now, rounds, sc))
				break
			}
		}
	}
	if s.bgEnabled("TimeoutTasks") {
		for _, id := range tables.SortedKeys(last.Tasks) {
			t := last.Tasks[id]
			if (t.State == 2 || t.State == 4) && (t.ExpiresAt <= now || t.Timeout <= now) {
				due := t.Timeout
				if t.ExpiresAt < due {
					due = t.ExpiresAt
				}
				s.violate("C11.task_overdue", r.c11props("C07"), "task", "enqueued or claimed task past its lease or timeout after the convergence window ["+s.cfgClass()+"] "+passedOver(r.sweepReads, due, t.Id), fmt.Sprintf("now %d rounds %d: %s", now, rounds, t))
				break
			}
		}
	}
	if s.bgEnabled("EnqueueTasks") && s.bgEnabled("TimeoutTasks") {
		for _, root := range sortedStrings(r.q0roots) {
			if !r.rootMoved[root] {
				// still dispatchable?
				still := false
				for _, t := range last.Tasks {
					if t.RootPromiseId == root && t.State == 1 && t.Timeout > now {
						still = true
					}
				}
				if still {
					s.violate("C11.task_undispatched", r.c11props("C08"), "task", "dispatchable task never dispatched during the convergence window ["+s.cfgClass()+"] "+passedOver(r.dispatchReads, 0, root), fmt.Sprintf("root %q, rounds %d", root, rounds))
					break
				}
			}
		}
	}
	s.Probes["convergence_checked"]++
}

// c11props: convergence violations belong to C11 and to the property that owns the row; after a
// restart in the same run they are also C06's ("background processing resumes from the stored state").
func (r *ruleState) c11props(owner string) []string {
	props := []string{"C11", owner}
	if r.s.boot > 1 {
		props = append(props, "C06")
	}
	return props
}

// passedOver names what kept a row waiting: every read of the background coroutine since the row
// became due was full (the batch limit crowded it out), or some read had room and still did
// not return it, or the coroutine did not read at all.
func passedOver(reads []*batchRead, due int64, id string) string {
	n, room := 0, 0
	for _, br := range reads {
		if br.time < due || br.ids[id] {
			continue
		}
		n++
		if br.room {
			room++
		}
	}
	switch {
	case n == 0:
		return "{no read of the background coroutine since it became due}"
	case room > 0:
		return "{passed over by a read that had room}"
	}
	return "{crowded out: every read was full}"
}

func (r *ruleState) onFinish() {
	s := r.s
	s.checkHeldBodies()
	for _, q := range s.Reqs {
		if q.Responses == 0 && !q.Lost {
			if s.alive || s.stopped {
				s.violate("C12.unanswered", P("C12"), q.Req.Kind.String(), "request never answered", fmt.Sprintf("%s submitted at step %d", q.Tag, q.Step))
			}
		}
	}
}
