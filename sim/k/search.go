package k

import (
	"fmt"
	"strings"

	"github.com/resonatehq/resonate/internal/kernel/t_aio"
	"github.com/resonatehq/resonate/internal/kernel/t_api"
	"github.com/resonatehq/resonate/pkg/promise"

	"github.com/resonatehq/resonate/verif/sim/tables"
)

// traversal follows one client's search across pages.
type traversal struct {
	kind    t_api.Kind
	id      string
	mask    int
	tags    map[string]string
	limit   int
	states  []*tables.Tables
	ids     []string
	sortIds []int64
	pages   int
}

func (r *ruleState) trav(client int) *traversal {
	if r.travs == nil {
		r.travs = map[int]*traversal{}
	}
	return r.travs[client]
}

func maskOf(states []promise.State) int {
	m := 0
	for _, s := range states {
		m |= int(s)
	}
	return m
}

func (r *ruleState) searchOnResponse(req *ReqRec) {
	s := r.s
	props := P("C14")
	// the state the final search transaction of this request saw
	var last *TxRec
	for _, tr := range req.Txs {
		if !tr.Committed || tr.Pre == nil {
			continue
		}
		for _, c := range tr.Tx.Commands {
			if c.Kind == t_aio.SearchPromises || c.Kind == t_aio.SearchSchedules {
				last = tr
			}
		}
	}
	if last == nil {
		s.Probes["search_unattributable"]++
		delete(r.travsOrInit(), req.Client)
		return
	}
	st := last.Pre
	s.Probes["search_page_checked"]++

	if req.Req.Kind == t_api.SearchPromises {
		q := req.Req.SearchPromises
		res := req.Res.SearchPromises
		if res.Status != t_api.StatusOK {
			r.specFail(req, props, "search must answer ok")
			return
		}
		// expected page from the reference store on that state
		m, err := st.Clone().Exec(&t_aio.Command{Kind: t_aio.SearchPromises, SearchPromises: &t_aio.SearchPromisesCommand{Id: q.Id, States: q.States, Tags: orEmpty(q.Tags), Limit: q.Limit, SortId: q.SortId}})
		if err != nil {
			return
		}
		want := m.Result.SearchPromises.Records
		if len(res.Promises) != len(want) {
			r.specFail(req, props, fmt.Sprintf("page has %d items, the matching set (limit %d) has %d", len(res.Promises), q.Limit, len(want)))
			return
		}
		if len(res.Promises) > q.Limit {
			r.specFail(req, props, "page larger than the requested size")
		}
		var ids []string
		var sortIds []int64
		for i, p := range res.Promises {
			row := st.Promises[want[i].Id]
			if p.Id != want[i].Id || row == nil || rowSig(row) != bodySig(p) {
				r.specFail(req, P("C14", "C01"), fmt.Sprintf("item %d is %s, expected row %v", i, bodySig(p), row))
				return
			}
			if p.State == promise.Pending && p.Timeout <= req.TResp {
				r.specFail(req, P("C14", "C04"), fmt.Sprintf("item %q reported pending past its timeout", p.Id))
			}
			ids = append(ids, p.Id)
			sortIds = append(sortIds, row.SortId)
		}
		full := len(res.Promises) == q.Limit
		if full != (res.Cursor != nil) {
			r.specFail(req, props, fmt.Sprintf("cursor present=%v but page full=%v", res.Cursor != nil, full))
			return
		}
		if res.Cursor != nil {
			n := res.Cursor.Next
			if n == nil || n.Id != q.Id || n.Limit != q.Limit || maskOf(n.States) != maskOf(q.States) || normMap(n.Tags) != normMap(q.Tags) || n.SortId == nil || *n.SortId != sortIds[len(sortIds)-1] {
				r.specFail(req, props, "cursor does not continue this query after the last item")
				return
			}
		}
		r.follow(req, t_api.SearchPromises, q.Id, maskOf(q.States), q.Tags, q.Limit, st, ids, sortIds, res.Cursor != nil)
		return
	}

	q := req.Req.SearchSchedules
	res := req.Res.SearchSchedules
	if res.Status != t_api.StatusOK {
		r.specFail(req, props, "search must answer ok")
		return
	}
	m, err := st.Clone().Exec(&t_aio.Command{Kind: t_aio.SearchSchedules, SearchSchedules: &t_aio.SearchSchedulesCommand{Id: q.Id, Tags: orEmpty(q.Tags), Limit: q.Limit, SortId: q.SortId}})
	if err != nil {
		return
	}
	want := m.Result.SearchSchedules.Records
	if len(res.Schedules) != len(want) {
		r.specFail(req, props, fmt.Sprintf("page has %d items, the matching set (limit %d) has %d", len(res.Schedules), q.Limit, len(want)))
		return
	}
	var ids []string
	var sortIds []int64
	for i, sc := range res.Schedules {
		row := st.Schedules[want[i].Id]
		if sc.Id != want[i].Id || row == nil || sc.Cron != row.Cron || sc.NextRunTime != row.NextRunTime || normMap(sc.Tags) != normJSONMap(row.Tags) || sc.CreatedOn != row.CreatedOn || keyStr(sc.IdempotencyKey) != keyStr(row.IdempotencyKey) {
			r.specFail(req, props, fmt.Sprintf("item %d is %v, expected row %v", i, sc, row))
			return
		}
		ids = append(ids, sc.Id)
		sortIds = append(sortIds, row.SortId)
	}
	full := len(res.Schedules) == q.Limit
	if full != (res.Cursor != nil) {
		r.specFail(req, props, fmt.Sprintf("cursor present=%v but page full=%v", res.Cursor != nil, full))
		return
	}
	if res.Cursor != nil {
		n := res.Cursor.Next
		if n == nil || n.Id != q.Id || n.Limit != q.Limit || normMap(n.Tags) != normMap(q.Tags) || n.SortId == nil || *n.SortId != sortIds[len(sortIds)-1] {
			r.specFail(req, props, "cursor does not continue this query after the last item")
			return
		}
	}
	r.follow(req, t_api.SearchSchedules, q.Id, 0, q.Tags, q.Limit, st, ids, sortIds, res.Cursor != nil)
}

func orEmpty(m map[string]string) map[string]string {
	if m == nil {
		return map[string]string{}
	}
	return m
}

func (r *ruleState) travsOrInit() map[int]*traversal {
	if r.travs == nil {
		r.travs = map[int]*traversal{}
	}
	return r.travs
}

// follow accumulates pages and judges the traversal when it ends.
func (r *ruleState) follow(req *ReqRec, kind t_api.Kind, id string, mask int, tags map[string]string, limit int, st *tables.Tables, ids []string, sortIds []int64, more bool) {
	s := r.s
	travs := r.travsOrInit()
	t := travs[req.Client]
	cont := req.Spec.Cursor && t != nil && t.kind == kind && t.id == id && t.mask == mask && t.limit == limit && normMap(t.tags) == normMap(tags)
	if !cont {
		if req.Spec.Cursor || req.Spec.RawCursor != "" {
			// continuation of something we did not follow from its first page
			s.Probes["search_continuation_not_followed"]++
			delete(travs, req.Client)
			return
		}
		if t != nil {
			s.Probes["search_traversal_abandoned"]++
		}
		t = &traversal{kind: kind, id: id, mask: mask, tags: tags, limit: limit}
		travs[req.Client] = t
	} else {
		// the page must continue where the accumulated pages end: a client that follows the same
		// cursor twice (a retry, two requests in flight) gets the same page twice, which says
		// nothing about the traversal
		var from *int64
		switch kind {
		case t_api.SearchPromises:
			from = req.Req.SearchPromises.SortId
		case t_api.SearchSchedules:
			from = req.Req.SearchSchedules.SortId
		}
		if len(t.sortIds) == 0 || from == nil || *from != t.sortIds[len(t.sortIds)-1] {
			s.Probes["search_page_out_of_sequence"]++
			return
		}
	}
	t.states = append(t.states, st)
	t.ids = append(t.ids, ids...)
	t.sortIds = append(t.sortIds, sortIds...)
	t.pages++
	if more {
		return
	}
	delete(travs, req.Client)
	s.Probes["search_traversal_completed"]++
	if t.pages > 1 {
		s.Probes["search_traversal_multi_page"]++
	}
	props := P("C14")
	// newest first, no item twice
	seen := map[string]bool{}
	for i, x := range t.ids {
		if seen[x] {
			r.specFail(req, props, fmt.Sprintf("traversal returned %q twice (pages: %v)", x, t.ids))
			return
		}
		seen[x] = true
		if i > 0 && !(t.sortIds[i] < t.sortIds[i-1]) {
			r.specFail(req, props, fmt.Sprintf("traversal not in newest-first order: %v / %v", t.ids, t.sortIds))
			return
		}
	}
	// every item that matched throughout the traversal is returned
	first := t.states[0]
	var candidates []string
	if kind == t_api.SearchPromises {
		candidates = tables.SortedKeys(first.Promises)
	} else {
		candidates = tables.SortedKeys(first.Schedules)
	}
	for _, cid := range candidates {
		if !tables.Like(id, cid) {
			continue
		}
		always := true
		for _, stt := range t.states {
			if kind == t_api.SearchPromises {
				row := stt.Promises[cid]
				if row == nil || row.State&mask == 0 || !tables.TagsMatch(row.Tags, tags) {
					always = false
				}
			} else {
				// the same schedule throughout: one that was deleted and created again in between
				// is a new item (new position), not one that was there all along
				row := stt.Schedules[cid]
				if row == nil || !tables.TagsMatch(row.Tags, tags) || row.SortId != first.Schedules[cid].SortId {
					always = false
				}
			}
		}
		if always && !seen[cid] {
			r.specFail(req, props, fmt.Sprintf("traversal over %d pages missed %q, which matched %q throughout; returned %s", t.pages, cid, id, strings.Join(t.ids, ",")))
			return
		}
	}
}
