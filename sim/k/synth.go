package k

import (
	"encoding/json"
	"errors"
	"fmt"
	"math/rand"
	"runtime/debug"

	"github.com/resonatehq/resonate/internal/kernel/t_api"
	"github.com/resonatehq/resonate/pkg/callback"
	"github.com/resonatehq/resonate/pkg/idempotency"
	"github.com/resonatehq/resonate/pkg/lock"
	"github.com/resonatehq/resonate/pkg/message"
	"github.com/resonatehq/resonate/pkg/promise"
	"github.com/resonatehq/resonate/pkg/schedule"
	"github.com/resonatehq/resonate/pkg/task"
)

// Outcome injection at the api seam (C15): the request goes through a production front end,
// but the kernel's answer is replaced by a synthesised one: any status the kernel defines
// (the list is generated from internal/kernel/t_api/status.go at build time), delivered the way
// the kernel delivers it (platform statuses as errors, application statuses in the response),
// with a type-correct resource whose optional parts are present or absent as the seed says.
// Both front ends render the same outcome; each rendering is judged by the independent
// rendering oracle (checkRendering). The kernel itself only produces a few of these
// (operation, status, shape) combinations in a run, the statement quantifies over all.

// Synth describes a synthesised kernel outcome.
type Synth struct {
	Status int   `json:"status"`
	AsErr  bool  `json:"as_err,omitempty"`
	Shape  int64 `json:"shape"`
}

func synthPromise(r *rand.Rand, id string, now int64) *promise.Promise {
	p := &promise.Promise{Id: id, State: pick(r, []promise.State{promise.Pending, promise.Resolved, promise.Rejected, promise.Canceled, promise.Timedout}), Timeout: now + pick(r, []int64{-5, 0, 1000, 1 << 40})}
	if r.Intn(2) == 0 {
		p.Param = promise.Value{Headers: map[string]string{"a": "b"}, Data: []byte(pick(r, []string{"", "x", "{\"j\":1}", "\x00\x01"}))}
	}
	if p.State != promise.Pending && r.Intn(2) == 0 {
		p.Value = promise.Value{Headers: map[string]string{"c": "d", "e": ""}, Data: []byte(pick(r, []string{"", "v", "ä"}))}
	}
	if r.Intn(2) == 0 {
		k := idempotency.Key(pick(r, []string{"k", "", "k k"}))
		p.IdempotencyKeyForCreate = &k
	}
	if p.State != promise.Pending && r.Intn(2) == 0 {
		k := idempotency.Key("kc")
		p.IdempotencyKeyForComplete = &k
	}
	if r.Intn(2) == 0 {
		p.Tags = map[string]string{"t": "a", "resonate:invoke": "poll://g/i"}
	}
	if r.Intn(4) != 0 {
		c := now - int64(r.Intn(1000))
		p.CreatedOn = &c
	}
	if p.State != promise.Pending && r.Intn(4) != 0 {
		c := now
		p.CompletedOn = &c
	}
	return p
}

func synthTask(r *rand.Rand, id string, counter int, now int64) *task.Task {
	typ := pick(r, []message.Type{message.Invoke, message.Resume, message.Notify})
	t := &task.Task{Id: id, Counter: counter, Timeout: now + 60000, State: pick(r, []task.State{task.Init, task.Enqueued, task.Claimed, task.Completed, task.Timedout}), RootPromiseId: "root", Recv: json.RawMessage(`"default"`),
		Mesg: &message.Mesg{Type: typ, Root: "root"}, Attempt: r.Intn(3), Ttl: r.Intn(5000), ExpiresAt: now + 1000}
	if typ == message.Resume {
		t.Mesg.Leaf = "leaf"
	}
	if r.Intn(2) == 0 {
		p := "w" + fmt.Sprint(r.Intn(3))
		t.ProcessId = &p
	}
	if r.Intn(4) != 0 {
		c := now - 5
		t.CreatedOn = &c
	}
	if r.Intn(3) == 0 {
		c := now
		t.CompletedOn = &c
	}
	return t
}

func synthSchedule(r *rand.Rand, id string, now int64) *schedule.Schedule {
	s := &schedule.Schedule{Id: id, Cron: "* * * * *", PromiseId: id + ".{{.timestamp}}", PromiseTimeout: int64(r.Intn(100000)), NextRunTime: now + 60000, CreatedOn: now}
	if r.Intn(2) == 0 {
		s.Description = "d"
	}
	if r.Intn(2) == 0 {
		s.Tags = map[string]string{"t": "b"}
	}
	if r.Intn(2) == 0 {
		s.PromiseParam = promise.Value{Headers: map[string]string{"h": "1"}, Data: []byte("pd")}
	}
	if r.Intn(2) == 0 {
		s.PromiseTags = map[string]string{"pt": "x"}
	}
	if r.Intn(2) == 0 {
		l := now - 60000
		s.LastRunTime = &l
	}
	if r.Intn(2) == 0 {
		k := idempotency.Key("sk")
		s.IdempotencyKey = &k
	}
	return s
}

// synthOutcome builds the outcome for the kernel request a front end submitted.
func synthOutcome(req *t_api.Request, sy *Synth, now int64, url string) (*t_api.Response, error) {
	st := t_api.StatusCode(sy.Status)
	if sy.AsErr {
		return nil, t_api.NewError(st, errors.New("synthesised platform error"))
	}
	r := rand.New(rand.NewSource(sy.Shape))
	ok := st.IsSuccessful()
	res := &t_api.Response{Kind: req.Kind, Tags: req.Tags}
	switch req.Kind {
	case t_api.ReadPromise:
		res.ReadPromise = &t_api.ReadPromiseResponse{Status: st}
		if ok {
			res.ReadPromise.Promise = synthPromise(r, req.ReadPromise.Id, now)
		}
	case t_api.SearchPromises:
		res.SearchPromises = &t_api.SearchPromisesResponse{Status: st}
		if ok {
			for i, n := 0, r.Intn(3); i < n; i++ {
				res.SearchPromises.Promises = append(res.SearchPromises.Promises, synthPromise(r, fmt.Sprintf("p%d", i), now))
			}
			if r.Intn(2) == 0 {
				next := *req.SearchPromises
				sid := int64(r.Intn(50))
				next.SortId = &sid
				res.SearchPromises.Cursor = &t_api.Cursor[t_api.SearchPromisesRequest]{Next: &next}
			}
		}
	case t_api.CreatePromise:
		res.CreatePromise = &t_api.CreatePromiseResponse{Status: st}
		if ok {
			res.CreatePromise.Promise = synthPromise(r, req.CreatePromise.Id, now)
		}
	case t_api.CreatePromiseAndTask:
		res.CreatePromiseAndTask = &t_api.CreatePromiseAndTaskResponse{Status: st}
		if ok {
			res.CreatePromiseAndTask.Promise = synthPromise(r, req.CreatePromiseAndTask.Promise.Id, now)
			if r.Intn(2) == 0 {
				res.CreatePromiseAndTask.Task = synthTask(r, "__invoke:"+req.CreatePromiseAndTask.Promise.Id, 1, now)
			}
		}
	case t_api.CompletePromise:
		res.CompletePromise = &t_api.CompletePromiseResponse{Status: st}
		if ok {
			res.CompletePromise.Promise = synthPromise(r, req.CompletePromise.Id, now)
		}
	case t_api.CreateCallback:
		res.CreateCallback = &t_api.CreateCallbackResponse{Status: st}
		if ok {
			q := req.CreateCallback
			res.CreateCallback.Promise = synthPromise(r, q.PromiseId, now)
			if r.Intn(2) == 0 {
				res.CreateCallback.Callback = &callback.Callback{Id: "__resume:" + q.RootPromiseId + ":" + q.PromiseId, PromiseId: q.PromiseId, RootPromiseId: q.RootPromiseId, Recv: q.Recv, Mesg: &message.Mesg{Type: message.Resume, Root: q.RootPromiseId, Leaf: q.PromiseId}, Timeout: q.Timeout, CreatedOn: now}
			}
		}
	case t_api.CreateSubscription:
		res.CreateSubscription = &t_api.CreateSubscriptionResponse{Status: st}
		if ok {
			q := req.CreateSubscription
			res.CreateSubscription.Promise = synthPromise(r, q.PromiseId, now)
			if r.Intn(2) == 0 {
				res.CreateSubscription.Callback = &callback.Callback{Id: "__notify:" + q.PromiseId + ":" + q.Id, PromiseId: q.PromiseId, RootPromiseId: q.PromiseId, Recv: q.Recv, Mesg: &message.Mesg{Type: message.Notify, Root: q.PromiseId}, Timeout: q.Timeout, CreatedOn: now}
			}
		}
	case t_api.ReadSchedule:
		res.ReadSchedule = &t_api.ReadScheduleResponse{Status: st}
		if ok {
			res.ReadSchedule.Schedule = synthSchedule(r, req.ReadSchedule.Id, now)
		}
	case t_api.SearchSchedules:
		res.SearchSchedules = &t_api.SearchSchedulesResponse{Status: st}
		if ok {
			for i, n := 0, r.Intn(3); i < n; i++ {
				res.SearchSchedules.Schedules = append(res.SearchSchedules.Schedules, synthSchedule(r, fmt.Sprintf("s%d", i), now))
			}
			if r.Intn(2) == 0 {
				next := *req.SearchSchedules
				sid := int64(r.Intn(50))
				next.SortId = &sid
				res.SearchSchedules.Cursor = &t_api.Cursor[t_api.SearchSchedulesRequest]{Next: &next}
			}
		}
	case t_api.CreateSchedule:
		res.CreateSchedule = &t_api.CreateScheduleResponse{Status: st}
		if ok {
			res.CreateSchedule.Schedule = synthSchedule(r, req.CreateSchedule.Id, now)
		}
	case t_api.DeleteSchedule:
		res.DeleteSchedule = &t_api.DeleteScheduleResponse{Status: st}
	case t_api.AcquireLock:
		res.AcquireLock = &t_api.AcquireLockResponse{Status: st}
		if ok {
			q := req.AcquireLock
			res.AcquireLock.Lock = &lock.Lock{ResourceId: q.ResourceId, ExecutionId: q.ExecutionId, ProcessId: q.ProcessId, Ttl: q.Ttl, ExpiresAt: now + q.Ttl}
		}
	case t_api.ReleaseLock:
		res.ReleaseLock = &t_api.ReleaseLockResponse{Status: st}
	case t_api.HeartbeatLocks:
		res.HeartbeatLocks = &t_api.HeartbeatLocksResponse{Status: st, LocksAffected: int64(r.Intn(4))}
	case t_api.ClaimTask:
		res.ClaimTask = &t_api.ClaimTaskResponse{Status: st}
		if ok {
			q := req.ClaimTask
			t := synthTask(r, q.Id, q.Counter, now)
			res.ClaimTask.Task = t
			res.ClaimTask.RootPromiseHref = url + "/promises/" + t.Mesg.Root
			if r.Intn(3) != 0 {
				res.ClaimTask.RootPromise = synthPromise(r, t.Mesg.Root, now)
			}
			if t.Mesg.Type == message.Resume {
				res.ClaimTask.LeafPromiseHref = url + "/promises/" + t.Mesg.Leaf
				if r.Intn(3) != 0 {
					res.ClaimTask.LeafPromise = synthPromise(r, t.Mesg.Leaf, now)
				}
			}
		}
	case t_api.CompleteTask:
		res.CompleteTask = &t_api.CompleteTaskResponse{Status: st}
		if ok {
			res.CompleteTask.Task = synthTask(r, req.CompleteTask.Id, req.CompleteTask.Counter, now)
		}
	case t_api.HeartbeatTasks:
		res.HeartbeatTasks = &t_api.HeartbeatTasksResponse{Status: st, TasksAffected: int64(r.Intn(4))}
	default:
		return nil, t_api.NewError(t_api.StatusInternalServerError, fmt.Errorf("no synthesis for %s", req.Kind))
	}
	return res, nil
}

// stepReqSynth renders one synthesised outcome through both front ends.
func (s *Sim) stepReqSynth(st *Step) bool {
	sp := st.Req
	idx := len(s.Reqs)
	tag := fmt.Sprintf("r%d", idx)
	rec := &ReqRec{Idx: idx, Client: st.Client, Spec: sp, Step: s.stepNo, InvokeEv: s.nextEv(), TCall: s.Now, Boot: s.boot, Tag: tag, FrontOnly: true, Responses: 1, TResp: s.Now}
	rec.RespEv = s.Ev
	s.Reqs = append(s.Reqs, rec)
	other := "grpc"
	if sp.Proto == "grpc" {
		other = "http"
	}
	for _, proto := range []string{sp.Proto, other} {
		cap := &captureAPI{mk: func(r *t_api.Request) (*t_api.Response, error) { return synthOutcome(r, sp.Synth, s.Now, s.Cfg.Url) }}
		fr, err := newFronts(cap)
		if err != nil {
			panic("harness: front ends: " + err.Error())
		}
		var rend *Rendered
		func() {
			defer func() {
				if r := recover(); r != nil {
					stack := string(debug.Stack())
					rend = &Rendered{Proto: proto, Panic: fmt.Sprint(r), Frame: topProductionFrame(stack)}
					if rend.Frame == "" {
						panic(fmt.Sprintf("harness panic: %v\n%s", r, stack))
					}
				}
			}()
			if proto == "grpc" {
				if f, ok := s.buildGRPC(st.Client, sp, tag); ok {
					rend = renderGRPC(fr.grpc, f)
				}
			} else {
				if hr, ok := s.buildHTTP(st.Client, sp, tag); ok {
					rend = renderHTTP(fr.http, hr.request())
				}
			}
		}()
		if rend == nil {
			continue
		}
		if rend.Panic != "" {
			s.logf("SYNTH %s via %s %s status=%d: %s", tag, proto, sp.Kind, sp.Synth.Status, rend.summary())
			s.rules.frontPanic(sp.Kind, rend)
			continue
		}
		if cap.got == nil {
			s.Probes["synth_refused_by_front"]++
			continue
		}
		s.logf("SYNTH %s via %s %s status=%d err=%v rendered=%s", tag, proto, cap.got.Kind, sp.Synth.Status, sp.Synth.AsErr, rend.summary())
		s.Probes[fmt.Sprintf("synth.%s.%s.%d", proto, cap.got.Kind, sp.Synth.Status)]++
		s.Probes["synth_outcomes"]++
		checkRendering(s, cap.got.Kind, cap.res, cap.err, sp.Synth.Status, rend, "synthesised outcome")
	}
	return true
}
