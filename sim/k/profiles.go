package k

import "sort"

func sortStrings(xs []string) { sort.Strings(xs) }

func baseProfile(name string) *Profile {
	return &Profile{
		Name: name,
		W: map[string]int{
			"ReadPromise": 10, "CreatePromise": 20, "CreatePromiseAndTask": 5, "CompletePromise": 20,
			"CreateCallback": 8, "CreateSubscription": 8, "ClaimTask": 10, "CompleteTask": 6, "HeartbeatTasks": 4,
			"AcquireLock": 6, "ReleaseLock": 4, "HeartbeatLocks": 3,
			"CreateSchedule": 4, "ReadSchedule": 2, "DeleteSchedule": 2, "SearchPromises": 5, "SearchSchedules": 2,
		},
		Promises:   []string{"p0", "p1", "p2", "p3"},
		Subs:       []string{"s0", "s1"},
		Schedules:  []string{"s0", "s1", "s2"},
		Resources:  []string{"l0", "l1"},
		Execs:      []string{"e0", "e1", "e2"},
		Procs:      []string{"w0", "w1", "w2"},
		MinSteps:   30,
		MaxSteps:   140,
		MaxReqs:    50,
		PTiny:      0.25,
		PReorder:   0.0,
		PLazyOnly:  0.1,
		PFaultRun:  0.5,
		PPre:       0.08,
		PPost:      0.08,
		PSql:       0.08,
		PCrashRun:  0.0,
		PCrash:     0.02,
		PShutdown:  0.0,
		PHandoff:   0.3,
		PRouted:    0.4,
		PTimeoutTg: 0.3,
		PDup:       0.2,
		PBoundary:  0.35,
		HotP:       0.5,
		PFine:      0.4,
		PJump:      0.05,
		Crons:      []string{"* * * * * *", "*/30 * * * * *", "* * * * *", "*/5 * * * *", "0 * * * *", "@every 90s", "@hourly", "15 10 * * *", "0 0 31 2 *", "CRON_TZ=UTC 0 0 * * *"},
		TimeoutRel: []int64{-1000, 0, 1, 50, 500, 1000, 2000, 5000, 5000, 60000, 10_000_000},
		Ttls:       []int64{0, 1, 10, 1000, 5000, 100000},
	}
}

func only(p *Profile, kinds map[string]int) *Profile {
	p.W = kinds
	return p
}

// ProfileForRun varies the profile with the run number for properties that quantify over
// every request kind: C02's runs rotate through the general mix and the task-, lock-,
// registration- and schedule-centred mixes of the properties that own those entities, so that
// the races those mixes reach are also judged against the sequential specification.
func ProfileForRun(prop string, run int) *Profile {
	if prop == "C01" && run%2 == 1 {
		// what a notification or a claim shows of a promise is an observation too: dispatch mix
		p := ProfileFor("C19")
		p.Name = "C01/dispatch"
		return p
	}
	if prop == "C18" {
		// kernel-engine phase of the C18 check: the dispatch-centred mix
		p := ProfileFor("C19")
		p.Name = "C18/dispatch"
		return p
	}
	if prop == "C02" {
		switch run % 8 {
		case 1:
			p := ProfileFor("C07")
			p.Name = "C02/tasks"
			return p
		case 3:
			p := ProfileFor("C09")
			p.Name = "C02/locks"
			return p
		case 5:
			p := ProfileFor("C05")
			p.Name = "C02/registrations"
			return p
		case 7:
			p := ProfileFor("C10")
			p.Name = "C02/schedules"
			return p
		}
	}
	if prop == "C11" && run%2 == 1 {
		// convergence of the task tables: the general mix rarely gets a task as far as a transport
		p := ProfileFor("C08")
		p.Name = "C11/tasks"
		p.PTiny = 0.4
		p.PJump = 0.15
		// leases that outlive the task's own timeout: the sweep must still finish the task
		p.Ttls = []int64{1000, 100000, 3_600_000, 3_600_000, 86_400_000}
		p.W["ClaimTask"] = 30
		return p
	}
	return ProfileFor(prop)
}

// ProfileFor returns the generation profile of a property's check.
func ProfileFor(prop string) *Profile {
	p := baseProfile(prop)
	switch prop {
	case "C01":
		only(p, map[string]int{"ReadPromise": 15, "CreatePromise": 25, "CreatePromiseAndTask": 5, "CompletePromise": 30, "CreateCallback": 6, "CreateSubscription": 6, "ClaimTask": 6, "SearchPromises": 8})
		p.Promises = []string{"p0", "p1", "p2"}
		p.PCrashRun = 0.3
		p.PReorder = 0.2
		p.PBoundary = 0.5
		p.TimeoutRel = []int64{0, 1, 50, 500, 1000, 2000, 5000, 5000, 20000}
	case "C02":
		p.PBoundary = 0.45
		p.PReorder = 0.15
	case "C03":
		p.PFront = 0.3
		p.KeyCase = true
		only(p, map[string]int{"CreatePromise": 30, "CreatePromiseAndTask": 10, "CompletePromise": 40, "ReadPromise": 5})
		p.Promises = []string{"p0"}
		p.PDup = 0.45
		p.PFaultRun = 0.7
		p.PPost = 0.15
		p.TimeoutRel = []int64{-1, 0, 1, 20, 200, 1000, 5000, 10_000_000}
	case "C04":
		only(p, map[string]int{"ReadPromise": 25, "CreatePromise": 25, "CompletePromise": 25, "SearchPromises": 12, "CreateCallback": 3, "CreateSubscription": 3})
		p.PBoundary = 0.6
		p.PLazyOnly = 0.35
		p.PExtremeTimeout = 0.06
		p.TimeoutRel = []int64{-1000, -1, 0, 1, 2, 10, 100, 1000, 2000, 5000}
		p.PTimeoutTg = 0.4
	case "C05":
		only(p, map[string]int{"CreatePromise": 20, "CompletePromise": 25, "CreateCallback": 20, "CreateSubscription": 20, "ReadPromise": 8, "SearchPromises": 3, "ClaimTask": 4})
		// ids that differ only in case are different promises
		p.Promises = []string{"p0", "p1", "P0"}
		p.Collide = true
		p.PCrashRun = 0.3
		p.PReorder = 0.3
		p.PBoundary = 0.5
		p.TimeoutRel = []int64{0, 1, 50, 500, 1000, 5000, 60000}
	case "C06":
		p.PCrashRun = 1.0
		p.PCrash = 0.04
		p.PShutdown = 0.25
	case "C07":
		only(p, map[string]int{"CreatePromise": 8, "CreatePromiseAndTask": 6, "CompletePromise": 3, "CreateCallback": 4, "CreateSubscription": 2, "ClaimTask": 40, "CompleteTask": 15, "HeartbeatTasks": 14})
		p.Collide = true
		p.PRouted = 0.9
		p.PBoundary = 0.5
		p.PHandoff = 0.15
		p.PTiny = 0.1
		p.PFaultRun = 0.3
		p.Prologue = "tasks"
		p.PFine = 0.6
		p.PLazyOnly = 0
		p.PTimeoutTg = 0.1
		p.Promises = []string{"p0", "p1", "p2"}
		p.TimeoutRel = []int64{2000, 20000, 60000, 10_000_000, 10_000_000}
		p.FineTimeoutRel = []int64{5, 30, 100, 1000, 10000, 10000}
	case "C08":
		p.Prologue = "tasks"
		p.PTiny = 0.15
		p.PFine = 0.5
		p.PLazyOnly = 0
		p.TimeoutRel = []int64{0, 500, 2000, 20000, 60000, 10_000_000}
		p.FineTimeoutRel = []int64{0, 3, 10, 30, 100, 1000, 10000}
		only(p, map[string]int{"CreatePromise": 25, "CreatePromiseAndTask": 10, "CompletePromise": 15, "CreateCallback": 10, "CreateSubscription": 10, "ClaimTask": 15, "CompleteTask": 8, "HeartbeatTasks": 3})
		p.PRouted = 0.7
		p.PHandoff = 0.4
	case "C09":
		// task heartbeats next to lock heartbeats: the two share store batches
		only(p, map[string]int{"AcquireLock": 40, "ReleaseLock": 25, "HeartbeatLocks": 20, "HeartbeatTasks": 8})
		p.PCrashRun = 0.3
		p.PBoundary = 0.6
		p.Ttls = []int64{0, 1, 10, 1000, 2000, 5000}
	case "C10":
		only(p, map[string]int{"CreateSchedule": 25, "DeleteSchedule": 8, "ReadSchedule": 8, "CreatePromise": 8, "SearchSchedules": 4, "ReadPromise": 3})
		p.Promises = []string{"p0", "sp.1700000060000", "s0.1700000060000"}
		// ids the id template must carry over unaltered into the scheduled promise's id
		p.Schedules = []string{"s0", "s1", "s2", "s+1", "a<b&c"}
		p.PJump = 0.2
		p.PCrashRun = 0.3
		p.PRouted = 0.2
	case "C11":
		p.Collide = true
		p.PTiny = 0.5
		p.PJump = 0.15
		p.PLazyOnly = 0
	case "C12":
		p.PTiny = 0.8
		p.PShutdown = 0.5
		p.PFaultRun = 0.7
	case "C14":
		only(p, map[string]int{"CreatePromise": 30, "CompletePromise": 15, "SearchPromises": 35, "CreateSchedule": 10, "DeleteSchedule": 4, "SearchSchedules": 15})
		p.Promises = []string{"p0", "p1", "p2", "p3", "p10", "p11", "q0", "q1", "a.p1", "zp0"}
		p.Schedules = []string{"s0", "s1", "s2", "s10", "t1"}
		p.MaxReqs = 80
		p.MaxSteps = 200
		p.PRouted = 0.1
		p.RichTags = true
		p.Prologue = "search"
		p.PDup = 0.05
		p.PForged = 0.04
	case "C13":
		p.PFront = 1
		p.PHostile = 0.55
		p.PCrashRun = 0.4
		p.PRouted = 0.7
		p.PTiny = 0.1
		p.PFine = 0.15
		p.PLazyOnly = 0.05
		p.Prologue = "tasks"
		p.TimeoutRel = []int64{0, 1000, 5000, 60000, 10_000_000, 10_000_000, 10_000_000}
		p.Promises = []string{"p0", "a:b", "b:c", "a", "c"}
		p.Collide = true
		p.PHostileRecv = 0.3
	case "C15":
		p.PFront = 1
		p.PSynth = 0.3
		// ids a client library escapes in a path ('+' stays, '/' and ':' do not)
		p.Promises = []string{"p0", "p1", "p2", "a+b/c", "x:y+z"}
		p.Schedules = []string{"s0", "s1", "s+1/2"}
		p.PTiny = 0.35
		p.PFaultRun = 0.6
		p.PShutdown = 0.15
	case "C20":
		p.PFront = 1
		p.HostileData = true
		p.PCrashRun = 0.5
		p.PTiny = 0.05
		p.PFaultRun = 0.2
		p.PRouted = 0.6
		p.Promises = []string{"p0", "A", "a", "a ", "a/b", "a:b", "ä", "<a&b>", "a%2Fb", "a.b", "{x}", "a?b=c", "a+b/c", "a b/c", "1+1,2", "a+b"}
		p.Subs = []string{"s0", "s:1", "S0"}
		p.Schedules = []string{"s0", "S0", "a<b&c", "s/1"}
		p.Resources = []string{"l0", "L0", "l 0"}
	case "C19":
		p.PHostileRecv = 0.15
		p.Prologue = "tasks"
		p.PTiny = 0.1
		p.PLazyOnly = 0
		p.TimeoutRel = []int64{500, 2000, 20000, 60000, 10_000_000}
		p.FineTimeoutRel = []int64{3, 10, 30, 100, 1000, 10000}
		only(p, map[string]int{"CreatePromise": 30, "CompletePromise": 15, "CreateCallback": 15, "CreateSubscription": 15, "ClaimTask": 6})
		p.PRouted = 0.9
		p.PHandoff = 0.4
	}
	return p
}
