package k

import (
	"context"
	"encoding/json"

	"google.golang.org/protobuf/encoding/protojson"
	"google.golang.org/protobuf/proto"

	sgrpc "github.com/resonatehq/resonate/internal/app/subsystems/api/grpc"
	"github.com/resonatehq/resonate/internal/app/subsystems/api/grpc/pb"
)

// buildRawGRPC builds a call of the named method from a protojson message
// (hostile inputs: nil sub-messages, negative numbers, empty strings ...).
func (s *Sim) buildRawGRPC(sp *ReqSpec, reqId string) (func(sgrpc.Services) (proto.Message, error), bool) {
	ctx := context.Background()
	raw := "{}"
	if sp.Data != nil {
		raw = *sp.Data
	}
	um := protojson.UnmarshalOptions{DiscardUnknown: true}
	dec := func(m proto.Message) bool {
		if !json.Valid([]byte(raw)) {
			return false
		}
		return um.Unmarshal([]byte(raw), m) == nil
	}
	switch sp.Id {
	case "ReadPromise":
		m := &pb.ReadPromiseRequest{}
		if !dec(m) {
			return nil, false
		}
		m.RequestId = reqId
		return func(g sgrpc.Services) (proto.Message, error) { return g.ReadPromise(ctx, m) }, true
	case "SearchPromises":
		m := &pb.SearchPromisesRequest{}
		if !dec(m) {
			return nil, false
		}
		m.RequestId = reqId
		return func(g sgrpc.Services) (proto.Message, error) { return g.SearchPromises(ctx, m) }, true
	case "CreatePromise":
		m := &pb.CreatePromiseRequest{}
		if !dec(m) {
			return nil, false
		}
		m.RequestId = reqId
		return func(g sgrpc.Services) (proto.Message, error) { return g.CreatePromise(ctx, m) }, true
	case "CreatePromiseAndTask":
		m := &pb.CreatePromiseAndTaskRequest{}
		if !dec(m) {
			return nil, false
		}
		if m.Promise != nil {
			m.Promise.RequestId = reqId
		}
		return func(g sgrpc.Services) (proto.Message, error) { return g.CreatePromiseAndTask(ctx, m) }, true
	case "ResolvePromise":
		m := &pb.ResolvePromiseRequest{}
		if !dec(m) {
			return nil, false
		}
		m.RequestId = reqId
		return func(g sgrpc.Services) (proto.Message, error) { return g.ResolvePromise(ctx, m) }, true
	case "RejectPromise":
		m := &pb.RejectPromiseRequest{}
		if !dec(m) {
			return nil, false
		}
		m.RequestId = reqId
		return func(g sgrpc.Services) (proto.Message, error) { return g.RejectPromise(ctx, m) }, true
	case "CancelPromise":
		m := &pb.CancelPromiseRequest{}
		if !dec(m) {
			return nil, false
		}
		m.RequestId = reqId
		return func(g sgrpc.Services) (proto.Message, error) { return g.CancelPromise(ctx, m) }, true
	case "CreateCallback":
		m := &pb.CreateCallbackRequest{}
		if !dec(m) {
			return nil, false
		}
		m.RequestId = reqId
		return func(g sgrpc.Services) (proto.Message, error) { return g.CreateCallback(ctx, m) }, true
	case "CreateSubscription":
		m := &pb.CreateSubscriptionRequest{}
		if !dec(m) {
			return nil, false
		}
		m.RequestId = reqId
		return func(g sgrpc.Services) (proto.Message, error) { return g.CreateSubscription(ctx, m) }, true
	case "ReadSchedule":
		m := &pb.ReadScheduleRequest{}
		if !dec(m) {
			return nil, false
		}
		m.RequestId = reqId
		return func(g sgrpc.Services) (proto.Message, error) { return g.ReadSchedule(ctx, m) }, true
	case "SearchSchedules":
		m := &pb.SearchSchedulesRequest{}
		if !dec(m) {
			return nil, false
		}
		m.RequestId = reqId
		return func(g sgrpc.Services) (proto.Message, error) { return g.SearchSchedules(ctx, m) }, true
	case "CreateSchedule":
		m := &pb.CreateScheduleRequest{}
		if !dec(m) {
			return nil, false
		}
		m.RequestId = reqId
		return func(g sgrpc.Services) (proto.Message, error) { return g.CreateSchedule(ctx, m) }, true
	case "DeleteSchedule":
		m := &pb.DeleteScheduleRequest{}
		if !dec(m) {
			return nil, false
		}
		m.RequestId = reqId
		return func(g sgrpc.Services) (proto.Message, error) { return g.DeleteSchedule(ctx, m) }, true
	case "AcquireLock":
		m := &pb.AcquireLockRequest{}
		if !dec(m) {
			return nil, false
		}
		m.RequestId = reqId
		return func(g sgrpc.Services) (proto.Message, error) { return g.AcquireLock(ctx, m) }, true
	case "ReleaseLock":
		m := &pb.ReleaseLockRequest{}
		if !dec(m) {
			return nil, false
		}
		m.RequestId = reqId
		return func(g sgrpc.Services) (proto.Message, error) { return g.ReleaseLock(ctx, m) }, true
	case "HeartbeatLocks":
		m := &pb.HeartbeatLocksRequest{}
		if !dec(m) {
			return nil, false
		}
		m.RequestId = reqId
		return func(g sgrpc.Services) (proto.Message, error) { return g.HeartbeatLocks(ctx, m) }, true
	case "ClaimTask":
		m := &pb.ClaimTaskRequest{}
		if !dec(m) {
			return nil, false
		}
		m.RequestId = reqId
		return func(g sgrpc.Services) (proto.Message, error) { return g.ClaimTask(ctx, m) }, true
	case "CompleteTask":
		m := &pb.CompleteTaskRequest{}
		if !dec(m) {
			return nil, false
		}
		m.RequestId = reqId
		return func(g sgrpc.Services) (proto.Message, error) { return g.CompleteTask(ctx, m) }, true
	case "HeartbeatTasks":
		m := &pb.HeartbeatTasksRequest{}
		if !dec(m) {
			return nil, false
		}
		m.RequestId = reqId
		return func(g sgrpc.Services) (proto.Message, error) { return g.HeartbeatTasks(ctx, m) }, true
	}
	return nil, false
}
