package k

import (
	"crypto/sha256"
	"encoding/hex"
	"fmt"
	"hash/fnv"
	"math/rand"
	"strings"
)

// RunResult is what one simulated run reports.
type RunResult struct {
	Property   string         `json:"property"`
	Run        int            `json:"run"`
	Seed       int64          `json:"seed"`
	Steps      int            `json:"steps"`
	Requests   int            `json:"requests"`
	Answered   int            `json:"answered"`
	Ticks      int            `json:"ticks"`
	Commits    int            `json:"commits"`
	SimMs      int64          `json:"sim_ms"`
	Stats      map[string]int `json:"stats"`
	Probes     map[string]int `json:"probes"`
	Sig        string         `json:"sig"`
	Nontrivial bool           `json:"nontrivial"`
	States     []string       `json:"states"`
	Statuses   map[string]int `json:"statuses"`
	Violations []*Violation   `json:"violations,omitempty"`
	EventHash  string         `json:"event_hash"`
	Plan       *Plan          `json:"plan,omitempty"`
	// the worker process that produced this run started at run ProcFrom and advanced by ProcStride
	ProcFrom   int `json:"proc_from,omitempty"`
	ProcStride int `json:"proc_stride,omitempty"`
}

func runSeed(seed int64, prop string, run int) int64 {
	h := fnv.New64a()
	h.Write([]byte(prop))
	return seed*1_000_003 + int64(run)*7919 + int64(h.Sum64()%1_000_000_007)
}

func (s *Sim) result(prop string, run int, seed int64, steps int) *RunResult {
	res := &RunResult{Property: prop, Run: run, Seed: seed, Steps: steps, Requests: len(s.Reqs), Ticks: len(s.Ticks), Commits: len(s.commitSig),
		SimMs: s.Now - s.Cfg.Epoch, Stats: s.Stats, Probes: s.Probes, Statuses: map[string]int{}, Violations: s.Violations}
	for _, q := range s.Reqs {
		if q.Responses > 0 {
			res.Answered++
		}
		kind := q.Spec.Kind
		if q.Spec.Synth != nil {
			res.Statuses[fmt.Sprintf("%s/synthesised-%d", kind, q.Spec.Synth.Status)]++
			continue
		}
		if q.FrontOnly {
			res.Statuses[kind+"/refused-by-front-end"]++
			continue
		}
		res.Statuses[fmt.Sprintf("%s/%d", kind, q.Status())]++
	}
	faults := 0
	for k, v := range s.Stats {
		if strings.HasPrefix(k, "aio.") || strings.HasPrefix(k, "sql.") || strings.HasPrefix(k, "crash") || strings.HasPrefix(k, "handoff.f") || strings.HasPrefix(k, "handoff.e") || k == "restart" || k == "cq_full" || k == "shutdown" || k == "reorder" {
			faults += v
		}
	}
	res.Nontrivial = faults > 0 || s.Probes["cas_lost"] > 0 || s.Probes["synth_outcomes"] > 0
	sig := s.CommitSignature() + fmt.Sprint(s.Stats)
	sum := sha256.Sum256([]byte(sig))
	res.Sig = hex.EncodeToString(sum[:8])
	res.States = sortedStrings(s.StateFp)
	res.EventHash = s.eventHash()
	return res
}

// eventHash digests everything observable about the run (determinism check).
func (s *Sim) eventHash() string {
	h := sha256.New()
	for _, q := range s.Reqs {
		fmt.Fprintf(h, "req %d %s %d %d %d %d|", q.Idx, q.Spec.Kind, q.InvokeEv, q.RespEv, q.TResp, q.Status())
		if q.Front != nil && q.Front.rendered != nil {
			fmt.Fprintf(h, "%s|", q.Front.rendered.summary())
		}
		if q.Res != nil {
			fmt.Fprintf(h, "%s|", q.Res.String())
		}
	}
	for _, c := range s.commitSig {
		fmt.Fprintf(h, "c %s|", c)
	}
	for _, m := range s.Msgs {
		fmt.Fprintf(h, "m %d %s %s %s %s|", m.Ev, m.Plugin, m.Data, m.Body, m.Outcome)
	}
	fmt.Fprintf(h, "final %v|", tablesString(s))
	for _, v := range s.Violations {
		fmt.Fprintf(h, "v %s|", v.Fingerprint())
	}
	return hex.EncodeToString(h.Sum(nil)[:12])
}

func tablesString(s *Sim) string {
	if s.Last == nil {
		return ""
	}
	var sb strings.Builder
	for _, id := range sortedKeysP(s) {
		sb.WriteString(id)
	}
	return sb.String()
}

func sortedKeysP(s *Sim) []string {
	var out []string
	for _, p := range s.Last.Promises {
		out = append(out, p.String())
	}
	for _, p := range s.Last.Tasks {
		out = append(out, p.String())
	}
	for _, p := range s.Last.Callbacks {
		out = append(out, p.String())
	}
	for _, p := range s.Last.Schedules {
		out = append(out, p.String())
	}
	for _, p := range s.Last.Locks {
		out = append(out, p.String())
	}
	sortStrings(out)
	return out
}

// Generate executes one generated run and returns its plan and result.
func Generate(prop string, prof *Profile, seed int64, run int, opts Options) (*Plan, *RunResult, error) {
	rs := runSeed(seed, prop, run)
	r := rand.New(rand.NewSource(rs))
	cfg := prof.DrawConfig(r)
	sim, err := NewSim(cfg, opts)
	if err != nil {
		return nil, nil, err
	}
	defer sim.Close()
	g := &Gen{R: r, P: prof, S: sim}
	g.Begin()
	plan := &Plan{Property: prop, Profile: prof.Name, Seed: seed, Run: run, Engine: "K", Config: cfg}
	traceHeader(plan)
	n := prof.MinSteps + r.Intn(prof.MaxSteps-prof.MinSteps+1)
	shutdown := r.Float64() < prof.PShutdown
	shutdownAt := -1
	if shutdown {
		shutdownAt = n/2 + r.Intn(n/2+1)
	}
	for _, st := range g.Prologue() {
		st := st
		traceStep(&st)
		sim.Exec(len(plan.Steps), &st)
		plan.Steps = append(plan.Steps, st)
	}
	for i := 0; i < n; i++ {
		var st Step
		if i == shutdownAt && sim.alive {
			st = Step{Op: "shutdown"}
		} else {
			st = g.Next()
		}
		traceStep(&st)
		sim.Exec(len(plan.Steps), &st)
		plan.Steps = append(plan.Steps, st)
		if opts.StopOnViolation && len(sim.Violations) > 0 {
			break
		}
	}
	if !(opts.StopOnViolation && len(sim.Violations) > 0) && !prof.NoQuiesce {
		if g.crashes && sim.alive && r.Intn(4) == 0 {
			// the last thing that happens is a kill: the server that has to finish the stored work
			// is one that has just been started on it
			if r.Intn(2) == 0 {
				// with a task that has just been born and not yet dispatched
				for _, pre := range []Step{{Op: "req", Req: &ReqSpec{Kind: "CreatePromise", Id: pick(r, prof.Promises), Data: g.val(), TimeoutRel: 10_000_000, Tags: map[string]string{"resonate:invoke": "poll://g1/w1"}}}, {Op: "drain"}} {
					pre := pre
					traceStep(&pre)
					sim.Exec(len(plan.Steps), &pre)
					plan.Steps = append(plan.Steps, pre)
				}
			}
			st := Step{Op: "crash"}
			traceStep(&st)
			sim.Exec(len(plan.Steps), &st)
			plan.Steps = append(plan.Steps, st)
			sim.Probes["final_crash"]++
		}
		st := Step{Op: "quiesce"}
		traceStep(&st)
		sim.Exec(len(plan.Steps), &st)
		plan.Steps = append(plan.Steps, st)
	}
	sim.Finish()
	res := sim.result(prop, run, seed, len(plan.Steps))
	return plan, res, nil
}

// Replay executes a plan exactly.
func Replay(plan *Plan, opts Options) (*RunResult, error) {
	sim, err := NewSim(plan.Config, opts)
	if err != nil {
		return nil, err
	}
	defer sim.Close()
	for i := range plan.Steps {
		st := plan.Steps[i]
		sim.Exec(i, &st)
		if opts.StopOnViolation && len(sim.Violations) > 0 {
			break
		}
	}
	sim.Finish()
	if opts.Log != nil {
		for _, row := range sortedKeysP(sim) {
			opts.Log("FINAL " + row)
		}
	}
	return sim.result(plan.Property, plan.Run, plan.Seed, len(plan.Steps)), nil
}
