package k

import (
	"encoding/json"
	"fmt"
	"math"
	"math/rand"
	"sort"
	"strings"

	"github.com/resonatehq/resonate/internal/kernel/t_api"
	"github.com/resonatehq/resonate/verif/sim/faultdb"
)

// Profile biases generation towards the behaviour one property depends on.
type Profile struct {
	Name string
	// relative weights of request kinds
	W map[string]int
	// id pools
	Promises  []string
	Subs      []string
	Schedules []string
	Resources []string
	Execs     []string
	Procs     []string
	// number of steps (before the final quiesce)
	MinSteps, MaxSteps int
	MaxReqs            int
	// probabilities
	PTiny      float64 // run uses tiny queues / pools
	PReorder   float64
	PLazyOnly  float64 // no background coroutines registered
	PFaultRun  float64 // run injects aio/sql faults at all
	PPre       float64 // per submission, when the run injects faults
	PPost      float64
	PSql       float64 // per store batch
	PCrashRun  float64 // run may crash
	PCrash     float64 // per step
	PShutdown  float64 // run ends with a graceful shutdown
	PHandoff   float64 // per hand-off: outcome other than ok
	PRouted    float64 // created promise carries a routing tag
	PTimeoutTg float64 // created promise carries resonate:timeout=true
	PDup       float64 // duplicate / retry a request
	PBoundary  float64 // tick lands on/around an interesting instant
	PJump      float64 // tick jumps far
	HostileIds bool
	Crons      []string
	// PFront: probability that a request goes through a front end (http or grpc, evenly)
	PFront float64
	// PHostile: probability that a request is a hostile one (malformed, out of range, forged cursor ...)
	PHostile float64
	// PForged: share of searches that present a cursor with valid content and a signature that does not verify
	PForged float64
	// HostileData: ids, tags and timeouts are drawn from the hostile-but-legal pools
	HostileData bool
	// Prologue: "" or "tasks" (routed promises, registrations and a few settled
	// rounds first, so that tasks exist and get dispatched)
	Prologue string
	// PFine: probability that a run uses the millisecond time scale
	PFine float64
	// HotP: probability that a promise operation addresses the run's hot id
	HotP float64
	// KeyCase: idempotency keys come in case variants
	KeyCase bool
	// PExtremeTimeout: share of creates whose absolute deadline is at an end of the int64 range
	PExtremeTimeout float64
	// PHostileRecv: share of receivers (registrations, routing tags) the transports cannot use
	PHostileRecv float64
	// Collide: registrations with coinciding derived task ids
	Collide bool
	// PSynth: share of front-end requests whose kernel outcome is synthesised (C15 outcome matrix)
	PSynth float64
	// RichTags gives promises and schedules several searchable tags and searches multi-tag filters
	RichTags bool
	// NoQuiesce: skip the final convergence phase
	NoQuiesce bool
	// Timeouts (relative, ms) to choose from
	TimeoutRel     []int64
	FineTimeoutRel []int64
	Ttls           []int64
}

func pick[T any](r *rand.Rand, xs []T) T { return xs[r.Intn(len(xs))] }

// Gen generates steps online against the simulated state.
type Gen struct {
	R       *rand.Rand
	P       *Profile
	S       *Sim
	uniq    int
	faults  bool
	crashes bool
	nReq    int
	recent  []*ReqSpec
	hot     string
	// per-run scheduling mood: relative eagerness of clients, the clock, workers and deliveries
	wReq, wTick int
	nSettle     int
	nGadget     int
	nDeadline   int
	nLostAck    int
	nDiskFull   int
	nFaultSettle int
	nCollide    int
	wWork, wDel map[string]int
	queue       []Step
}

// DrawConfig draws the swarm configuration of a run.
func (p *Profile) DrawConfig(r *rand.Rand) Config {
	tiny := r.Float64() < p.PTiny
	sz := func(big []int, small []int) int {
		if tiny {
			return pick(r, small)
		}
		return pick(r, big)
	}
	cfg := Config{
		ApiSize:         sz([]int{100, 100, 20}, []int{1, 2, 3, 5}),
		AioSize:         sz([]int{100, 100, 20}, []int{1, 2, 3, 5}),
		Coroutines:      sz([]int{100, 100, 20, 8}, []int{1, 2, 3, 5, 6}),
		SubBatch:        sz([]int{100, 100, 10, 3}, []int{1, 2, 3}),
		CqBatch:         sz([]int{100, 100, 10, 3}, []int{1, 2, 3}),
		PromiseBatch:    pick(r, []int{1, 2, 3, 10, 100}),
		ScheduleBatch:   pick(r, []int{1, 2, 3, 10, 100}),
		TaskBatch:       pick(r, []int{1, 2, 3, 10, 100}),
		SignalTimeoutMs: pick(r, []int64{1000, 1000, 2000, 5000, 10000}),
		EnqueueDelayMs:  pick(r, []int64{1000, 2000, 5000, 10000}),
		StoreQ:          sz([]int{100, 100, 20}, []int{1, 2, 3, 5}),
		RouterQ:         sz([]int{100, 100, 20}, []int{1, 2, 3}),
		SenderQ:         sz([]int{100, 100, 20}, []int{1, 2, 3}),
		StoreBatch:      pick(r, []int{1, 1, 2, 3, 5, 10, 100}),
		Reorder:         r.Float64() < p.PReorder,
		Url:             "http://sim.test:8001",
		Epoch:           1_700_000_000_000 + int64(r.Intn(100000))*977,
	}
	if r.Float64() < p.PFine {
		cfg.Fine = true
		cfg.SignalTimeoutMs = pick(r, []int64{3, 10, 40, 1000})
		cfg.EnqueueDelayMs = pick(r, []int64{2, 10, 50, 1000})
	}
	if r.Float64() < p.PLazyOnly {
		cfg.NoBackground = true
	}
	if r.Intn(2) == 0 {
		cfg.Targets = []Target{{Name: "tgt", Type: "poll", Data: []byte(`{"group":"tg","id":"t1"}`)}, {Name: "web", Type: "http", Data: []byte(`{"url":"http://web.test/hook"}`)}}
		if r.Intn(3) == 0 {
			// routing sources with keys of the operator's own (the built-in resonate:invoke source stays last)
			cfg.Sources = []Source{{Name: "s1", Type: "tag", Data: []byte(`{"key":"route:first"}`)}, {Name: "s2", Type: "tag", Data: []byte(`{"key":"route:second"}`)}}
		}
		if r.Intn(2) == 0 {
			// the operator may redefine the built-in name
			cfg.Targets = append(cfg.Targets, Target{Name: "default", Type: "http", Data: []byte(`{"url":"http://default.test/in"}`)})
		}
	}
	return cfg
}

func NewGen(seed int64, p *Profile, s *Sim) *Gen {
	g := &Gen{R: rand.New(rand.NewSource(seed)), P: p, S: s}
	return g
}

// Begin draws per-run switches (after the configuration).
func (g *Gen) Begin() {
	g.faults = g.R.Float64() < g.P.PFaultRun
	g.crashes = g.R.Float64() < g.P.PCrashRun
	g.hot = pick(g.R, g.P.Promises)
	// the collision gadget poisons a run's convergence (known finding D2): one run in five
	if g.P.Collide && g.R.Intn(5) != 0 {
		g.nCollide = 1
	}
	mood := []int{2, 8, 30, 30, 30, 90}
	g.wReq, g.wTick = pick(g.R, mood), pick(g.R, mood)
	g.wWork, g.wDel = map[string]int{}, map[string]int{}
	for _, sub := range []string{"store", "router", "sender"} {
		g.wWork[sub], g.wDel[sub] = pick(g.R, mood), pick(g.R, mood)
	}
}

func (g *Gen) val() *string {
	g.uniq++
	v := fmt.Sprintf("v#%d", g.uniq)
	return &v
}

func (g *Gen) key() *string {
	if g.P.KeyCase && g.R.Intn(3) == 0 {
		// keys that differ only in letter case are different keys
		k := pick(g.R, []string{"K0", "k0", "K1"})
		return &k
	}
	switch g.R.Intn(4) {
	case 0:
		return nil
	case 1:
		k := "k0"
		return &k
	case 2:
		k := "k1"
		return &k
	}
	k := "k0"
	return &k
}

var routingTags = []string{
	`poll://g1/w1`, `poll://g2`, `http://web.test/x`, `https://web.test/y`, `tgt`, `web`, `nowhere`, `default`,
	`{"type":"poll","data":{"group":"g3","id":"w3"}}`, `{"type":"http","data":{"url":"http://h.test/z"}}`,
	// valid JSON that is not a receiver object: must not route
	`123`, `true`, `null`, `"default"`, `["default"]`, `{"type":"","data":{}}`, `{"type":"poll","data":{"group":"g"},"extra":1}`, `{}`, `-1.5e3`,
	// not JSON: plain strings
	`{not json`, ` spaced name `, `poll://g1/w1/extra`, ``,
}

var recvs = []string{
	`"poll://g1/w1"`, `"poll://g2"`, `"http://web.test/cb"`, `"tgt"`, `"nowhere"`, `"default"`,
	`{"type":"poll","data":{"group":"g3","id":"w3"}}`, `{"type":"http","data":{"url":"http://h.test/z"}}`,
}

// hostileRecvs are receivers a front end accepts although the transport cannot use the address.
var hostileRecvs = []string{
	`{"type":"poll","data":null}`, `{"type":"http","data":null}`, `{"type":"poll"}`, `{"type":"http"}`,
	`{"type":"http","data":{}}`, `{"type":"poll","data":{}}`, `{"type":"poll","data":"x"}`, `{"type":"http","data":[1]}`,
	`{"type":"http","data":{"url":":bad"}}`, `{"type":"http","data":{"url":"http://h.test/z","headers":{"":"v","a b":"c"}}}`,
	`{"type":"poll","data":{"group":"","id":""}}`, `{"type":"smtp","data":{}}`,
}

func (g *Gen) recv() string {
	if g.P.PHostileRecv > 0 && g.R.Float64() < g.P.PHostileRecv {
		return pick(g.R, hostileRecvs)
	}
	return pick(g.R, recvs)
}

func (g *Gen) promiseId() string {
	if g.R.Float64() < g.P.HotP {
		return g.hot
	}
	return pick(g.R, g.P.Promises)
}

func (g *Gen) timeoutRel() int64 {
	if g.S.Cfg.Fine {
		if len(g.P.FineTimeoutRel) > 0 {
			return pick(g.R, g.P.FineTimeoutRel)
		}
		return pick(g.R, []int64{-1, 0, 1, 2, 3, 5, 8, 12, 20, 40, 100})
	}
	return pick(g.R, g.P.TimeoutRel)
}

func (g *Gen) ttl() int64 {
	if g.S.Cfg.Fine {
		return pick(g.R, []int64{0, 1, 2, 3, 5, 10, 30})
	}
	return pick(g.R, g.P.Ttls)
}

func (g *Gen) createSpec(kind string) *ReqSpec {
	sp := &ReqSpec{Kind: kind, Id: g.promiseId(), IKey: g.key(), Strict: g.R.Intn(4) == 0, Data: g.val(), TimeoutRel: g.timeoutRel()}
	if g.R.Intn(3) == 0 {
		sp.Headers = map[string]string{"h": *g.val()}
	}
	tags := map[string]string{}
	if g.R.Float64() < g.P.PTimeoutTg {
		tags["resonate:timeout"] = pick(g.R, []string{"true", "true", "false"})
	}
	if len(g.S.Cfg.Sources) > 0 && g.R.Intn(2) == 0 {
		// the operator configured routing sources of its own: use their keys (one, the other, both)
		for _, src := range g.S.Cfg.Sources {
			var c struct{ Key string }
			if json.Unmarshal(src.Data, &c) == nil && c.Key != "" && g.R.Intn(2) == 0 {
				tags[c.Key] = pick(g.R, routingTags)
			}
		}
	}
	if g.R.Float64() < g.P.PRouted || (kind == "CreatePromiseAndTask" && g.R.Intn(4) != 0) {
		tags["resonate:invoke"] = pick(g.R, routingTags)
		if g.P.PHostileRecv > 0 && g.R.Float64() < g.P.PHostileRecv {
			tags["resonate:invoke"] = pick(g.R, hostileRecvs)
		}
	}
	if g.R.Intn(3) == 0 {
		tags["t"] = pick(g.R, []string{"a", "b"})
	}
	if g.P.RichTags {
		// several searchable tags per promise, so that multi-tag filters have partial matches
		if g.R.Intn(2) == 0 {
			tags["t"] = pick(g.R, []string{"a", "b"})
		}
		if g.R.Intn(2) == 0 {
			tags["u"] = pick(g.R, []string{"x", "y"})
		}
		if g.R.Intn(3) == 0 {
			tags["v"] = "1"
		}
	}
	if len(tags) > 0 {
		sp.Tags = tags
	}
	if kind == "CreatePromiseAndTask" {
		sp.Process = pick(g.R, g.P.Procs)
		sp.Ttl = g.ttl()
	}
	return sp
}

// taskIds lists task ids worth addressing: stored ones and a few derived names.
func (g *Gen) taskIds() []string {
	if g.R.Intn(10) < 8 {
		var live []string
		keep4 := g.R.Intn(2) == 0
		for id, t := range g.S.Last.Tasks {
			if t.State == 1 || t.State == 2 || (t.State == 4 && keep4) {
				live = append(live, id)
			}
		}
		if len(live) > 0 {
			sort.Strings(live)
			return live
		}
	}
	if g.R.Float64() < g.P.HotP {
		var hot []string
		for id, t := range g.S.Last.Tasks {
			if t.RootPromiseId == g.hot {
				hot = append(hot, id)
			}
		}
		if len(hot) > 0 {
			sort.Strings(hot)
			return hot
		}
	}
	ids := []string{}
	for id := range g.S.Last.Tasks {
		ids = append(ids, id)
	}
	sort.Strings(ids)
	if len(ids) == 0 || g.R.Intn(8) == 0 {
		ids = append(ids, "__invoke:"+g.promiseId())
	}
	return ids
}

func (g *Gen) reqSpec() *ReqSpec {
	// weighted choice
	total := 0
	kinds := make([]string, 0, len(g.P.W))
	for k := range g.P.W {
		kinds = append(kinds, k)
	}
	sort.Strings(kinds)
	for _, k := range kinds {
		total += g.P.W[k]
	}
	x := g.R.Intn(total)
	kind := ""
	for _, k := range kinds {
		if x < g.P.W[k] {
			kind = k
			break
		}
		x -= g.P.W[k]
	}
	switch kind {
	case "ReadPromise":
		return &ReqSpec{Kind: kind, Id: g.promiseId()}
	case "CreatePromise", "CreatePromiseAndTask":
		return g.createSpec(kind)
	case "CompletePromise":
		sp := &ReqSpec{Kind: kind, Id: g.promiseId(), IKey: g.key(), Strict: g.R.Intn(4) == 0, State: pick(g.R, []string{"RESOLVED", "REJECTED", "REJECTED_CANCELED"}), Data: g.val()}
		if g.R.Intn(3) == 0 {
			sp.Headers = map[string]string{"h": *g.val()}
		}
		return sp
	case "CreateCallback":
		sp := &ReqSpec{Kind: kind, Id: "cb", PromiseId: g.promiseId(), RootId: g.promiseId(), Recv: g.recv(), TimeoutRel: g.timeoutRel()}
		if g.R.Intn(3) == 0 {
			sp.RootId = pick(g.R, []string{"r0", "r1"})
		}
		return sp
	case "CreateSubscription":
		return &ReqSpec{Kind: kind, Id: pick(g.R, g.P.Subs), PromiseId: g.promiseId(), Recv: g.recv(), TimeoutRel: g.timeoutRel()}
	case "ReadSchedule", "DeleteSchedule":
		return &ReqSpec{Kind: kind, Id: pick(g.R, g.P.Schedules)}
	case "CreateSchedule":
		sp := &ReqSpec{Kind: kind, Id: pick(g.R, g.P.Schedules), IKey: g.key(), Cron: pick(g.R, g.P.Crons), PromiseTimeout: pick(g.R, []int64{0, 1, 1000, 60000, 3600000}), Data: g.val()}
		sp.PromiseId = pick(g.R, []string{"{{.id}}.{{.timestamp}}", "sp.{{.timestamp}}", "{{.id}}/{{.timestamp}}", "fix-{{.id}}"})
		if g.R.Intn(3) == 0 {
			sp.PromiseId = pick(g.R, g.P.Promises)
		}
		if g.R.Intn(2) == 0 {
			sp.PromiseTags = map[string]string{"pt": pick(g.R, []string{"x", "y"})}
			if g.R.Intn(3) == 0 {
				// the scheduled promise routes: it is born with its invocation task
				sp.PromiseTags["resonate:invoke"] = pick(g.R, routingTags[:8])
			}
		}
		if g.R.Intn(3) == 0 {
			sp.Tags = map[string]string{"t": pick(g.R, []string{"a", "b"})}
		}
		if g.P.RichTags && g.R.Intn(2) == 0 {
			sp.Tags = map[string]string{}
			for _, kv := range [][2]string{{"t", pick(g.R, []string{"a", "b"})}, {"u", pick(g.R, []string{"x", "y"})}, {"v", "1"}} {
				if g.R.Intn(2) == 0 {
					sp.Tags[kv[0]] = kv[1]
				}
			}
		}
		if g.R.Intn(3) == 0 {
			sp.Desc = "d" + *g.val()
		}
		return sp
	case "AcquireLock":
		return &ReqSpec{Kind: kind, Resource: pick(g.R, g.P.Resources), Execution: pick(g.R, g.P.Execs), Process: pick(g.R, g.P.Procs), Ttl: g.ttl()}
	case "ReleaseLock":
		return &ReqSpec{Kind: kind, Resource: pick(g.R, g.P.Resources), Execution: pick(g.R, g.P.Execs)}
	case "HeartbeatLocks", "HeartbeatTasks":
		return &ReqSpec{Kind: kind, Process: pick(g.R, g.P.Procs)}
	case "ClaimTask":
		return &ReqSpec{Kind: kind, Id: pick(g.R, g.taskIds()), CounterFrom: pick(g.R, []string{"snap", "snap", "msg"}), Counter: pick(g.R, []int{0, 0, 0, 0, 0, 0, 0, -1, 1}), Process: pick(g.R, g.P.Procs), Ttl: g.ttl()}
	case "CompleteTask":
		return &ReqSpec{Kind: kind, Id: pick(g.R, g.taskIds()), CounterFrom: "snap", Counter: pick(g.R, []int{0, 0, 0, 0, -1, 1})}
	case "SearchPromises":
		if g.P.PForged > 0 && g.R.Float64() < g.P.PForged {
			g.S.Probes["forged_cursor_with_valid_content"]++
			return &ReqSpec{Kind: kind, RawCursor: g.forgedValidCursor(kind), Forged: true, Proto: pick(g.R, []string{"http", "grpc"})}
		}
		// follow a cursor some client holds (most of the time), else start a new search
		if len(g.cursorClients(kind)) > 0 && g.R.Intn(4) != 0 {
			return &ReqSpec{Kind: kind, Cursor: true}
		}
		sp := &ReqSpec{Kind: kind, Id: pick(g.R, []string{"*", "p*", "*1", "p*0", "*.*", "s*", "p1", "*p*"}), Limit: pick(g.R, []int{1, 1, 2, 3, 100, 0})}
		if g.P.RichTags {
			// search-centred mix: broad patterns and small pages, so that traversals span pages
			sp.Id, sp.Limit = pick(g.R, []string{"*", "*", "p*", "p*", "*1", "*p*", "q*"}), pick(g.R, []int{1, 1, 2, 2, 3, 100, 0})
		}
		switch g.R.Intn(5) {
		case 0:
			sp.States = []string{"pending"}
		case 1:
			sp.States = []string{"resolved"}
		case 2:
			sp.States = []string{"rejected"}
		}
		if g.R.Intn(4) == 0 {
			sp.Tags = map[string]string{"t": pick(g.R, []string{"a", "b"})}
		}
		if g.P.RichTags {
			if g.R.Intn(2) == 0 {
				sp.States = nil
			}
			sp.Tags = nil
			if g.R.Intn(2) == 0 {
				// mostly one tag, sometimes several (partial matches must not be returned)
				sp.Tags = map[string]string{}
				all := [][2]string{{"t", pick(g.R, []string{"a", "b"})}, {"u", pick(g.R, []string{"x", "y"})}, {"v", "1"}, {"resonate:timeout", "true"}}
				g.R.Shuffle(len(all), func(i, j int) { all[i], all[j] = all[j], all[i] })
				for _, kv := range all[:pick(g.R, []int{1, 1, 1, 2, 2, 3})] {
					sp.Tags[kv[0]] = kv[1]
				}
			}
		}
		return sp
	case "SearchSchedules":
		if g.P.PForged > 0 && g.R.Float64() < g.P.PForged {
			g.S.Probes["forged_cursor_with_valid_content"]++
			return &ReqSpec{Kind: kind, RawCursor: g.forgedValidCursor(kind), Forged: true, Proto: pick(g.R, []string{"http", "grpc"})}
		}
		if len(g.cursorClients(kind)) > 0 && g.R.Intn(4) != 0 {
			return &ReqSpec{Kind: kind, Cursor: true}
		}
		sp := &ReqSpec{Kind: kind, Id: pick(g.R, []string{"*", "s*", "*1", "s0"}), Limit: pick(g.R, []int{1, 2, 100, 0})}
		if g.P.RichTags {
			sp.Id, sp.Limit = pick(g.R, []string{"*", "*", "s*", "s*", "*1"}), pick(g.R, []int{1, 1, 2, 2, 100, 0})
		}
		if g.R.Intn(4) == 0 {
			sp.Tags = map[string]string{"t": pick(g.R, []string{"a", "b"})}
		}
		if g.P.RichTags {
			sp.Tags = nil
			if g.R.Intn(2) == 0 {
				sp.Tags = map[string]string{}
				all := [][2]string{{"t", pick(g.R, []string{"a", "b"})}, {"u", pick(g.R, []string{"x", "y"})}, {"v", "1"}}
				g.R.Shuffle(len(all), func(i, j int) { all[i], all[j] = all[j], all[i] })
				for _, kv := range all[:pick(g.R, []int{1, 1, 1, 2})] {
					sp.Tags[kv[0]] = kv[1]
				}
			}
		}
		return sp
	}
	return &ReqSpec{Kind: "ReadPromise", Id: g.promiseId()}
}

// cursorClients lists the clients that hold a cursor of a search kind.
func (g *Gen) cursorClients(kind string) []int {
	var out []int
	for c := 0; c < 3; c++ {
		if q := g.S.cursors[c]; q != nil && q.Kind.String() == kind {
			out = append(out, c)
		}
	}
	return out
}

// instants returns clock values at which something stored becomes due.
func (g *Gen) instants() []int64 {
	s := g.S
	var xs []int64
	for _, p := range s.Last.Promises {
		if p.State == 1 {
			xs = append(xs, p.Timeout)
		}
	}
	for _, t := range s.Last.Tasks {
		if t.State == 2 || t.State == 4 {
			xs = append(xs, t.ExpiresAt, t.Timeout)
		}
		if t.State == 1 {
			xs = append(xs, t.Timeout)
		}
	}
	for _, l := range s.Last.Locks {
		xs = append(xs, l.ExpiresAt)
	}
	for _, sc := range s.Last.Schedules {
		xs = append(xs, sc.NextRunTime)
	}
	var out []int64
	for _, x := range xs {
		if x >= s.Now-1 && x-s.Now < 1<<40 {
			out = append(out, x)
		}
	}
	sort.Slice(out, func(i, j int) bool { return out[i] < out[j] })
	return out
}

// alignSettle starts the first dispatch cycle of a settle step just before something stored
// becomes due, so that the cycle's later ticks are on the other side of that instant: the
// cycle's stages run at T, T+inner, T+2*inner, ...
func (g *Gen) alignSettle(st *Step) {
	s, r := g.S, g.R
	var far []int64
	for _, x := range g.instants() {
		if x-1-s.Now >= s.Cfg.SignalTimeoutMs {
			far = append(far, x)
		}
	}
	if len(far) > 0 {
		st.Dt = far[r.Intn(min(len(far), 3))] - int64(r.Intn(2)) - st.Inner*int64(r.Intn(3)) - s.Now
		s.Probes["settle_on_boundary"]++
	}
}

func (g *Gen) dt() int64 {
	r := g.R
	if r.Float64() < g.P.PBoundary {
		if xs := g.instants(); len(xs) > 0 {
			t := xs[r.Intn(min(len(xs), 3))] + int64(r.Intn(3)-1)
			if t >= g.S.Now {
				g.S.Probes["tick_on_boundary"]++
				return t - g.S.Now
			}
		}
	}
	if g.S.Cfg.Fine {
		return pick(r, []int64{0, 0, 1, 1, 1, 2, 3, 5, 10})
	}
	if r.Float64() < g.P.PJump {
		return pick(r, []int64{60_000, 600_000, 3_600_000, 86_400_000})
	}
	return pick(r, []int64{0, 0, 1, 1, 10, 100, 500, 1000, 1000, 2000, 5000})
}

func (g *Gen) faultIdx(n int, p float64) []int {
	if !g.faults {
		return nil
	}
	var out []int
	for i := 0; i < n; i++ {
		if g.R.Float64() < p {
			out = append(out, i)
		}
	}
	return out
}

// decorate sends a request through a front end and/or gives it hostile data.
func (g *Gen) decorate(sp *ReqSpec) {
	r := g.R
	if g.P.PExtremeTimeout > 0 && (sp.Kind == "CreatePromise" || sp.Kind == "CreatePromiseAndTask") && r.Float64() < g.P.PExtremeTimeout {
		// deadlines at the ends of the int64 range (clock arithmetic must not wrap)
		v := pick(r, []int64{math.MinInt64, math.MinInt64 + 1_000_000, math.MinInt64 + 1<<41, -1, 0, 1, math.MaxInt64, math.MaxInt64 - 1_000_000})
		sp.TimeoutAbs = &v
	}
	if g.P.PExtremeTimeout > 0 && sp.Kind == "CompletePromise" && r.Float64() < g.P.PExtremeTimeout {
		// a client asks over HTTP for the one state only the server may give: the front end must refuse it
		// (through the kernel queue directly the request would bypass the validation that is under test)
		sp.State, sp.Proto = "REJECTED_TIMEDOUT", "http"
		g.S.Probes["complete_with_timedout_state"]++
		return
	}
	if g.P.HostileData {
		switch sp.Kind {
		case "CreatePromise", "CreatePromiseAndTask":
			if r.Intn(4) == 0 {
				v := pick(r, []int64{math.MaxInt64, math.MinInt64, 0, -1, math.MaxInt64 - 1, 1 << 53, 1<<53 + 1})
				sp.TimeoutAbs = &v
			}
			if r.Intn(3) == 0 {
				if sp.Tags == nil {
					sp.Tags = map[string]string{}
				}
				sp.Tags[pick(r, []string{"a.b", "k k", "ä", "", "x\"y", "resonate:x"})] = pick(r, hostileStrings[:20])
			}
			if r.Intn(3) == 0 {
				d := pick(r, []string{"", " ", "\x00\x01", "ä€", "{\"j\":1}", "line\nbreak", strings.Repeat("z", 3000)})
				sp.Data = &d
			}
			if r.Intn(4) == 0 {
				sp.Headers = map[string]string{pick(r, []string{"", "H", "h", "a b", "ä"}): pick(r, []string{"", " v ", "ä"})}
			}
		case "CompletePromise":
			if r.Intn(3) == 0 {
				d := pick(r, []string{"", " ", "\x00\x01", "ä€", "null", strings.Repeat("z", 3000)})
				sp.Data = &d
			}
		case "CreateSchedule":
			if r.Intn(3) == 0 {
				sp.PromiseTimeout = pick(r, []int64{0, -1, 1 << 40, math.MaxInt64 / 4})
			}
		}
	}
	if r.Float64() < g.P.PFront {
		sp.Proto = pick(r, []string{"http", "grpc"})
	}
	if sp.Proto != "" && g.P.PSynth > 0 && r.Float64() < g.P.PSynth {
		st := pick(r, AllStatuses)
		if r.Intn(2) == 0 {
			st = pick(r, []t_api.StatusCode{t_api.StatusOK, t_api.StatusCreated, t_api.StatusNoContent})
		}
		sp.Synth = &Synth{Status: int(st), AsErr: st >= 50000, Shape: r.Int63()}
	}
}

// Prologue returns the fixed opening steps of a run.
func (g *Gen) Prologue() []Step {
	if g.P.Prologue == "search" {
		// content to search in: promises in several states with several tags, a few schedules
		var st []Step
		long := int64(10_000_000)
		ids := append([]string{}, g.P.Promises...)
		g.R.Shuffle(len(ids), func(i, j int) { ids[i], ids[j] = ids[j], ids[i] })
		n := 4 + g.R.Intn(len(ids)-3)
		for i := 0; i < n; i++ {
			sp := g.createSpec("CreatePromise")
			sp.Id, sp.TimeoutRel, sp.Strict = ids[i], long, false
			st = append(st, Step{Op: "req", Req: sp})
		}
		st = append(st, Step{Op: "drain"})
		for i := 0; i < n; i++ {
			if g.R.Intn(3) == 0 {
				st = append(st, Step{Op: "req", Req: &ReqSpec{Kind: "CompletePromise", Id: ids[i], State: pick(g.R, []string{"RESOLVED", "REJECTED", "REJECTED_CANCELED"}), Data: g.val()}})
			}
		}
		for i, m := 0, 2+g.R.Intn(len(g.P.Schedules)-1); i < m && i < len(g.P.Schedules); i++ {
			sp := &ReqSpec{Kind: "CreateSchedule", Id: g.P.Schedules[i], Cron: "0 0 1 1 *", PromiseId: "{{.id}}.{{.timestamp}}", PromiseTimeout: 1000, Data: g.val(), Tags: map[string]string{}}
			for _, kv := range [][2]string{{"t", pick(g.R, []string{"a", "b"})}, {"u", pick(g.R, []string{"x", "y"})}, {"v", "1"}} {
				if g.R.Intn(2) == 0 {
					sp.Tags[kv[0]] = kv[1]
				}
			}
			st = append(st, Step{Op: "req", Req: sp})
		}
		st = append(st, Step{Op: "drain"})
		return st
	}
	if g.P.Prologue != "tasks" {
		return nil
	}
	var st []Step
	long := int64(10_000_000)
	n := 1 + g.R.Intn(len(g.P.Promises))
	for i := 0; i < n; i++ {
		id := g.P.Promises[i]
		sp := &ReqSpec{Kind: "CreatePromise", Id: id, Data: g.val(), TimeoutRel: long, Tags: map[string]string{"resonate:invoke": pick(g.R, []string{"poll://g1/w1", "http://web.test/x", "default", `{"type":"poll","data":{"group":"g3","id":"w3"}}`})}}
		if g.R.Intn(3) == 0 {
			sp.TimeoutRel = pick(g.R, []int64{50, 2000, 30000})
		}
		st = append(st, Step{Op: "req", Req: sp})
	}
	st = append(st, Step{Op: "settle", Rounds: 1})
	if g.R.Intn(2) == 0 && n >= 2 {
		st = append(st, Step{Op: "req", Req: &ReqSpec{Kind: "CreateCallback", Id: "cb", PromiseId: g.P.Promises[1], RootId: g.P.Promises[0], Recv: pick(g.R, recvs), TimeoutRel: long}})
		st = append(st, Step{Op: "req", Req: &ReqSpec{Kind: "CreateSubscription", Id: "s0", PromiseId: g.P.Promises[1], Recv: pick(g.R, recvs), TimeoutRel: long}})
	}
	st = append(st, Step{Op: "settle", Rounds: 1 + g.R.Intn(3)})
	return st
}

// Next produces the next step.
func (g *Gen) Next() Step {
	s, r := g.S, g.R
	if !s.alive {
		down := pick(r, []int64{0, 1, 1000, 60_000, 3_600_000, 7 * 86_400_000})
		st := Step{Op: "restart", Down: down}
		if r.Intn(3) == 0 {
			c := g.P.DrawConfig(r)
			c.Targets, c.Sources, c.Url = s.Cfg.Targets, s.Cfg.Sources, s.Cfg.Url
			st.Cfg = &c
		}
		return st
	}
	if len(g.queue) > 0 {
		st := g.queue[0]
		g.queue = g.queue[1:]
		if st.Op == "settle" && st.K == 1 {
			// aligned when issued: the tasks it is about exist by now
			st.K = 0
			g.alignSettle(&st)
		}
		return st
	}
	type cand struct {
		w  int
		mk func() Step
	}
	var cs []cand
	inflight := 0
	for _, q := range s.Reqs {
		if q.Responses == 0 && !q.Lost {
			inflight++
		}
	}
	if g.nReq < g.P.MaxReqs {
		w := g.wReq
		if inflight > 8 {
			w = 1 + w/6
		}
		cs = append(cs, cand{w, func() Step {
			g.nReq++
			var sp *ReqSpec
			if r.Float64() < g.P.PHostile {
				s.Probes["hostile_request"]++
				return Step{Op: "req", Client: r.Intn(3), Req: g.hostileReq()}
			}
			if len(g.recent) > 0 && r.Float64() < g.P.PDup {
				c := *pick(r, g.recent)
				sp = &c
				s.Probes["client_duplicate_or_retry"]++
			} else {
				sp = g.reqSpec()
				g.decorate(sp)
			}
			g.recent = append(g.recent, sp)
			if len(g.recent) > 6 {
				g.recent = g.recent[1:]
			}
			client := r.Intn(3)
			if sp.Cursor {
				if cs := g.cursorClients(sp.Kind); len(cs) > 0 {
					client = cs[r.Intn(len(cs))]
				}
			}
			return Step{Op: "req", Client: client, Req: sp}
		}})
	}
	// a burst of concurrent requests on the hot promise
	if g.nReq+4 < g.P.MaxReqs && g.P.HotP > 0 {
		cs = append(cs, cand{1 + g.wReq/3, func() Step {
			n := 2 + r.Intn(4)
			saved := g.P.HotP
			g.P.HotP = 1
			for i := 0; i < n; i++ {
				var sp *ReqSpec
				for try := 0; try < 20; try++ {
					sp = g.reqSpec()
					if sp.Id == g.hot || sp.PromiseId == g.hot || strings.HasSuffix(sp.Id, ":"+g.hot) || sp.Kind == "HeartbeatTasks" {
						break
					}
				}
				g.nReq++
				g.decorate(sp)
				g.queue = append(g.queue, Step{Op: "req", Client: r.Intn(3), Req: sp})
			}
			g.P.HotP = saved
			s.Probes["burst"]++
			st := g.queue[0]
			g.queue = g.queue[1:]
			return st
		}})
	}
	// requests that straddle the deadline of the hot promise: the clock is brought to just before
	// it, a handful of reads/completions/creates/searches of that promise is submitted, and their
	// store round trips are separated by ticks of a millisecond or none, so that some are decided
	// before, some exactly at and some after the deadline, against each other and against the sweep
	if hp := s.Last.Promises[g.hot]; hp != nil && hp.State == 1 && hp.Timeout > s.Now && hp.Timeout-s.Now < 1<<40 && g.nDeadline < 3 && g.nReq+6 < g.P.MaxReqs {
		cs = append(cs, cand{2 + g.wReq/4, func() Step {
			g.nDeadline++
			s.Probes["deadline_gadget"]++
			lead := int64(r.Intn(3))
			kinds := []string{"ReadPromise", "CompletePromise", "SearchPromises", "ReadPromise", "CreatePromise", "CompletePromise"}
			n := 2 + r.Intn(4)
			for i := 0; i < n; i++ {
				var sp *ReqSpec
				switch k := kinds[r.Intn(len(kinds))]; k {
				case "ReadPromise":
					sp = &ReqSpec{Kind: k, Id: g.hot}
				case "CompletePromise":
					sp = &ReqSpec{Kind: k, Id: g.hot, IKey: g.key(), Strict: r.Intn(4) == 0, State: pick(r, []string{"RESOLVED", "REJECTED", "REJECTED_CANCELED"}), Data: g.val()}
				case "CreatePromise":
					sp = g.createSpec(k)
					sp.Id = g.hot
				default:
					sp = &ReqSpec{Kind: k, Id: pick(r, []string{"*", g.hot}), Limit: pick(r, []int{1, 2, 100})}
					if r.Intn(2) == 0 {
						sp.States = []string{"pending"}
					}
				}
				g.nReq++
				g.decorate(sp)
				g.queue = append(g.queue, Step{Op: "req", Client: r.Intn(3), Req: sp})
				if r.Intn(3) == 0 {
					g.queue = append(g.queue, Step{Op: "tick", Dt: int64(r.Intn(2))})
				}
			}
			for i := 0; i < 3; i++ {
				g.queue = append(g.queue, Step{Op: "tick", Dt: int64(r.Intn(2))}, Step{Op: "work", Sub: "store", N: 1 + r.Intn(4)}, Step{Op: "deliver", Sub: "store"})
			}
			dt := hp.Timeout - lead - s.Now
			if dt < 0 {
				dt = 0 // the simulated clock never runs backwards
			}
			return Step{Op: "tick", Dt: dt}
		}})
	}
	cs = append(cs, cand{g.wTick, func() Step { return Step{Op: "tick", Dt: g.dt()} }})
	// a write whose acknowledgement is lost: the request's writing transaction commits, its completion
	// is replaced by an error on the way back (the request must answer with an error or with what it did,
	// never as if somebody else had done it)
	if g.faults && g.nLostAck < 2 {
		cs = append(cs, cand{3, func() Step {
			g.nLostAck++
			s.Probes["lost_ack_gadget"]++
			var sp *ReqSpec
			for try := 0; try < 20; try++ {
				sp = g.reqSpec()
				if sp.Kind == "CompletePromise" || sp.Kind == "CreatePromise" || sp.Kind == "AcquireLock" || sp.Kind == "ClaimTask" || sp.Kind == "CreateSchedule" || sp.Kind == "CreateCallback" {
					break
				}
			}
			g.nReq++
			g.decorate(sp)
			sp.Proto, sp.Synth = "", nil
			if sp.State == "REJECTED_TIMEDOUT" {
				// only a front end can refuse that state; straight into the kernel queue it would bypass the API
				sp.State = "RESOLVED"
			}
			// drive it alone: first everything queued finishes, then read (store, router), then the write with its completion lost
			g.queue = append(g.queue, Step{Op: "req", Client: r.Intn(3), Req: sp}, Step{Op: "tick"},
				Step{Op: "work", Sub: "store"}, Step{Op: "deliver", Sub: "store"}, Step{Op: "tick"},
				Step{Op: "work", Sub: "router"}, Step{Op: "deliver", Sub: "router"}, Step{Op: "tick"},
				Step{Op: "work", Sub: "store", Post: []int{0}}, Step{Op: "deliver", Sub: "store"}, Step{Op: "tick"}, Step{Op: "drain"})
			return Step{Op: "drain"}
		}})
	}
	// the disk fills up while requests are in flight: writes fail (for a while or for good), reads go on
	if g.faults && g.nDiskFull < 1 && r.Intn(4) == 0 {
		cs = append(cs, cand{2, func() Step {
			g.nDiskFull++
			s.Probes["disk_full_period"]++
			g.queue = append(g.queue, Step{Op: pick(r, []string{"drain", "settle", "tick"}), Rounds: 1})
			return Step{Op: "diskfull", N: pick(r, []int{3, 10, 40, 0, 0})}
		}})
	}
	// whole background periods with store/router/sender failures inside them
	if g.faults && g.nFaultSettle < 2 {
		cs = append(cs, cand{2, func() Step {
			g.nFaultSettle++
			s.Probes["settle_with_faults"]++
			return Step{Op: "settle", Rounds: 1 + r.Intn(2), Inner: pick(r, []int64{0, 1, 2}), FaultSeed: 1 + r.Int63n(1<<40)}
		}})
	}
	// a few background periods in which hand-offs fail: tasks reach the transports mostly through
	// whole dispatch cycles, which single scheduling steps rarely complete
	if g.P.PHandoff > 0 && g.nSettle < 3 {
		waiting := 0
		for _, t := range s.Last.Tasks {
			if t.State == 1 || t.State == 2 {
				waiting++
			}
		}
		if waiting+len(s.Last.Callbacks) > 0 {
			cs = append(cs, cand{2, func() Step {
				g.nSettle++
				st := Step{Op: "settle", Rounds: 1 + r.Intn(3), Inner: pick(r, []int64{0, 1, 1, 2, 25})}
				if g.faults && r.Intn(2) == 0 {
					st.FaultSeed = 1 + r.Int63n(1<<40)
				}
				if r.Float64() < g.P.PBoundary {
					g.alignSettle(&st)
				}
				for i, n := 0, 1+r.Intn(4); i < n; i++ {
					o := "ok"
					if r.Float64() < 0.25+g.P.PHandoff {
						o = pick(r, []string{"false", "error", "full"})
					}
					st.Outcomes = append(st.Outcomes, o)
				}
				s.Probes["settle_with_handoff_outcomes"]++
				return st
			}})
		}
	}
	// several tasks of different kinds born inside one background period, then a dispatch cycle
	// that starts just before one of them times out: the cycle handles a mixed batch whose
	// members change sides of their deadline between the cycle's stages
	if g.P.Prologue == "tasks" && g.nGadget < 3 && g.nReq+8 < g.P.MaxReqs {
		cs = append(cs, cand{8, func() Step {
			g.nGadget++
			long := int64(10_000_000)
			ids := append([]string{}, g.P.Promises...)
			r.Shuffle(len(ids), func(i, j int) { ids[i], ids[j] = ids[j], ids[i] })
			// fan-in: one root awaiting several leaves gets several tasks at once (only one of them
			// may be dispatched at a time; the others must not keep other roots waiting)
			fanIn := ""
			if r.Intn(2) == 0 {
				fanIn = pick(r, []string{"a0", "m5", "r0", ids[0]})
			}
			nItems := 2 + r.Intn(3)
			if fanIn != "" {
				nItems = 3 + r.Intn(2)
			}
			for i := 0; i < nItems && i < len(ids); i++ {
				id := ids[i]
				short := pick(r, []int64{1500, 3000, 5000, 20000, long})
				kindOf := r.Intn(3)
				if fanIn != "" && i > 0 && (i < 3 || r.Intn(3) != 0) {
					kindOf = 2
				}
				switch kindOf {
				case 0:
					g.queue = append(g.queue, Step{Op: "req", Req: &ReqSpec{Kind: "CreatePromise", Id: id, Data: g.val(), TimeoutRel: short, Tags: map[string]string{"resonate:invoke": pick(r, routingTags)}}})
				case 1:
					g.queue = append(g.queue, Step{Op: "req", Req: &ReqSpec{Kind: "CreatePromise", Id: id, Data: g.val(), TimeoutRel: long}},
						Step{Op: "req", Req: &ReqSpec{Kind: "CreateSubscription", Id: pick(r, g.P.Subs), PromiseId: id, Recv: g.recv(), TimeoutRel: short}},
						Step{Op: "drain"},
						Step{Op: "req", Req: &ReqSpec{Kind: "CompletePromise", Id: id, State: pick(r, []string{"RESOLVED", "REJECTED"}), Data: g.val()}})
				default:
					g.queue = append(g.queue, Step{Op: "req", Req: &ReqSpec{Kind: "CreatePromise", Id: id, Data: g.val(), TimeoutRel: long}},
						Step{Op: "req", Req: &ReqSpec{Kind: "CreateCallback", Id: "cb", PromiseId: id, RootId: func() string {
							if fanIn != "" {
								return fanIn
							}
							return pick(r, g.P.Promises)
						}(), Recv: g.recv(), TimeoutRel: short}},
						Step{Op: "drain"},
						Step{Op: "req", Req: &ReqSpec{Kind: "CompletePromise", Id: id, State: pick(r, []string{"RESOLVED", "REJECTED"}), Data: g.val()}})
				}
				g.nReq += 3
			}
			g.queue = append(g.queue, Step{Op: "drain"}, Step{Op: "settle", Rounds: 1 + r.Intn(2), Inner: pick(r, []int64{1, 1, 2}), K: 1})
			s.Probes["dispatch_batch_gadget"]++
			st := g.queue[0]
			g.queue = g.queue[1:]
			return st
		}})
	}
	// two registrations whose derived task ids coincide ("__resume:" + root + ":" + promise and
	// "__notify:" + promise + ":" + id are ambiguous when ids contain the separator): the second
	// conversion meets the task the first one left behind
	if g.P.Collide && g.nCollide < 1 && g.nReq+8 < g.P.MaxReqs {
		cs = append(cs, cand{2, func() Step {
			g.nCollide++
			long := int64(10_000_000)
			x1, x2 := "b:c", "c"
			reg1 := &ReqSpec{Kind: "CreateCallback", Id: "cb", PromiseId: x1, RootId: "a", Recv: pick(r, recvs), TimeoutRel: long}
			reg2 := &ReqSpec{Kind: "CreateCallback", Id: "cb", PromiseId: x2, RootId: "a:b", Recv: pick(r, recvs), TimeoutRel: long}
			if r.Intn(2) == 0 {
				x1, x2 = "a", "a:b"
				reg1 = &ReqSpec{Kind: "CreateSubscription", Id: "b:c", PromiseId: x1, Recv: pick(r, recvs), TimeoutRel: long}
				reg2 = &ReqSpec{Kind: "CreateSubscription", Id: "c", PromiseId: x2, Recv: pick(r, recvs), TimeoutRel: long}
			}
			if r.Intn(2) == 0 {
				x1, x2 = x2, x1
				reg1, reg2 = reg2, reg1
			}
			g.queue = append(g.queue,
				Step{Op: "req", Req: &ReqSpec{Kind: "CreatePromise", Id: x1, Data: g.val(), TimeoutRel: long}},
				Step{Op: "req", Req: &ReqSpec{Kind: "CreatePromise", Id: x2, Data: g.val(), TimeoutRel: pick(r, []int64{long, 3000})}},
				Step{Op: "drain"},
				Step{Op: "req", Req: reg1}, Step{Op: "drain"},
				Step{Op: "req", Req: &ReqSpec{Kind: "CompletePromise", Id: x1, State: "RESOLVED", Data: g.val()}}, Step{Op: "drain"},
				Step{Op: "req", Req: reg2}, Step{Op: "drain"})
			if r.Intn(3) != 0 {
				g.queue = append(g.queue, Step{Op: "req", Req: &ReqSpec{Kind: "CompletePromise", Id: x2, State: "REJECTED", Data: g.val()}}, Step{Op: "drain"})
			}
			g.nReq += 6
			for i := range g.queue {
				if g.queue[i].Req != nil {
					g.decorate(g.queue[i].Req)
				}
			}
			s.Probes["derived_id_collision_gadget"]++
			st := g.queue[0]
			g.queue = g.queue[1:]
			return st
		}})
	}
	for _, sub := range []string{"store", "router", "sender"} {
		sub := sub
		sh := s.shellByName(sub)
		if len(sh.q) > 0 && (len(sh.parked) == 0 || sub == "sender") {
			cs = append(cs, cand{g.wWork[sub], func() Step {
				n := 1 + r.Intn(len(sh.q))
				if r.Intn(3) == 0 {
					n = len(sh.q)
				}
				st := Step{Op: "work", Sub: sub, N: n}
				if s.Cfg.Reorder && len(sh.q) > 1 && r.Intn(2) == 0 {
					st.Perm = r.Perm(len(sh.q))[:min(n, len(sh.q))]
				}
				st.Pre = g.faultIdx(n, g.P.PPre)
				st.Post = g.faultIdx(n, g.P.PPost)
				if sub == "store" && g.faults && r.Float64() < g.P.PSql {
					where := pick(r, []string{"stmt", "stmt", "stmt", "commit", "begin"})
					st.Sql = &faultdb.Fault{Where: where, At: r.Intn(6), Err: pick(r, []string{"full", "ioerr", "busy"})}
					if where == "commit" && r.Intn(3) == 0 {
						// the transaction's deadline passed: rolled back, Commit says "transaction has already been committed or rolled back"
						st.Sql.Err = "txdone"
					}
				}
				if sub == "store" && g.crashes && r.Float64() < g.P.PCrash*3 {
					st.CrashAt = pick(r, []string{"mid", "before", "after", "after"})
					if st.CrashAt == "mid" {
						st.Sql = &faultdb.Fault{Where: "stmt", At: r.Intn(6), Err: "ioerr"}
					}
				}
				if sub == "sender" {
					for i := 0; i < n; i++ {
						o := "ok"
						if r.Float64() < g.P.PHandoff {
							o = pick(r, []string{"false", "error", "full"})
						}
						st.Outcomes = append(st.Outcomes, o)
					}
				}
				return st
			}})
		}
		if len(sh.parked) > 0 {
			cs = append(cs, cand{g.wDel[sub], func() Step {
				k := 1 + r.Intn(len(sh.parked))
				if r.Intn(2) == 0 {
					k = 0
				}
				return Step{Op: "deliver", Sub: sub, K: k}
			}})
		}
	}
	if g.crashes && r.Float64() < g.P.PCrash {
		return Step{Op: "crash"}
	}
	total := 0
	for _, c := range cs {
		total += c.w
	}
	x := r.Intn(total)
	for _, c := range cs {
		if x < c.w {
			return c.mk()
		}
		x -= c.w
	}
	return Step{Op: "tick", Dt: 0}
}
