package k

import (
	"fmt"
	"os"
	"regexp"
	"runtime"
	"strings"
	"sync/atomic"
	"time"
)

// The simulator is one goroutine calling into the production kernel. If a
// production call never returns because every goroutine is blocked (the kernel
// waiting on a queue only the kernel drains, say), no step can report it: the
// process has to. WatchHang decides "blocked for good" conservatively: the
// step heartbeat has not moved for hangAfter, and two goroutine dumps taken
// hangGap apart show the same stacks with nothing running, runnable or in a
// system call besides the watcher itself. Anything else (slow, spinning) is
// left to the run watchdog and counts as infrastructure trouble.

var beat atomic.Int64

// Beat marks progress of the simulation.
func Beat() { beat.Add(1) }

const (
	hangAfter = 30 * time.Second
	hangGap   = 10 * time.Second
)

var reGoroutine = regexp.MustCompile(`(?m)^goroutine (\d+)(?: gp=\S+ m=\S+(?: mp=\S+)?)? \[([^\],]+)(?:, [^\]]*)?\]:$`)
var reAddr = regexp.MustCompile(`0x[0-9a-f]+|\+0x[0-9a-f]+|, \d+ minutes`)

// dump returns the normalised stacks of all goroutines except the caller's, and whether
// all of them are blocked.
func dump() (norm string, blocked bool, raw string) {
	buf := make([]byte, 8<<20)
	n := runtime.Stack(buf, true)
	raw = string(buf[:n])
	blocks := strings.Split(raw, "\n\n")
	blocked = true
	var keep []string
	for _, b := range blocks {
		if strings.Contains(b, "sim/k.WatchHang") {
			continue
		}
		m := reGoroutine.FindStringSubmatch(b)
		if m == nil {
			continue
		}
		if strings.Contains(b, "os/signal.signal_recv") {
			continue
		}
		switch st := m[2]; {
		case st == "running", st == "runnable", st == "syscall", st == "preempted", st == "copystack", strings.Contains(st, "active"), strings.Contains(st, "assist"):
			blocked = false
		}
		keep = append(keep, reAddr.ReplaceAllString(b, ""))
	}
	return strings.Join(keep, "\n\n"), blocked, raw
}

// HangBlock picks the goroutine of the simulator out of a dump.
func HangBlock(raw string) string {
	blocks := strings.Split(raw, "\n\n")
	for _, b := range blocks {
		if strings.Contains(b, "sim/k.(*Sim).") && !strings.Contains(b, "sim/k.WatchHang") {
			return b
		}
	}
	for _, b := range blocks {
		if strings.Contains(b, "resonate/internal/") {
			return b
		}
	}
	return raw
}

// WatchHang starts the watcher; on a hang it writes a report to stderr and exits with code 4.
func WatchHang(what func() string) {
	go func() {
		last, since := beat.Load(), time.Now()
		for {
			time.Sleep(time.Second)
			if b := beat.Load(); b != last {
				last, since = b, time.Now()
				continue
			}
			if time.Since(since) < hangAfter {
				continue
			}
			n1, b1, _ := dump()
			if !b1 {
				since = time.Now().Add(-hangAfter + hangGap)
				continue
			}
			time.Sleep(hangGap)
			n2, b2, raw := dump()
			if beat.Load() != last || !b2 || n1 != n2 {
				since = time.Now().Add(-hangAfter + hangGap)
				continue
			}
			fmt.Fprintf(os.Stderr, "VERIF-HANG %s: no simulation progress for %v and every goroutine is blocked\n%s\n", what(), hangAfter+hangGap, HangBlock(raw))
			os.Exit(4)
		}
	}()
}
