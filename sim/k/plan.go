// Package k is engine K of the verification harness: a single-threaded,
// seeded, replayable simulator around the production kernel (api queue, aio
// queue, system.Tick, coroutines, store/router/sender processing code, real
// SQLite through the fault driver).
package k

import (
	"encoding/json"

	"github.com/resonatehq/resonate/verif/sim/faultdb"
)

// Config is the swarm configuration of one run (drawn from the seed, stored
// in the plan).
type Config struct {
	ApiSize         int   `json:"api_size"`
	AioSize         int   `json:"aio_size"`
	Coroutines      int   `json:"coroutines"`
	SubBatch        int   `json:"sub_batch"`
	CqBatch         int   `json:"cq_batch"`
	PromiseBatch    int   `json:"promise_batch"`
	ScheduleBatch   int   `json:"schedule_batch"`
	TaskBatch       int   `json:"task_batch"`
	SignalTimeoutMs int64 `json:"signal_timeout_ms"`
	EnqueueDelayMs  int64 `json:"enqueue_delay_ms"`
	StoreQ          int   `json:"store_q"`
	RouterQ         int   `json:"router_q"`
	SenderQ         int   `json:"sender_q"`
	StoreBatch      int   `json:"store_batch"`
	Reorder         bool  `json:"reorder"`
	// Background lists the background coroutines that are registered; nil
	// means all five (as cmd/serve does).
	Background []string `json:"background,omitempty"`
	// NoBackground: no background coroutine is registered (lazy paths only).
	NoBackground bool `json:"no_background,omitempty"`
	// Targets / Sources are the sender and router tables.
	Targets []Target `json:"targets,omitempty"`
	Sources []Source `json:"sources,omitempty"`
	Url     string   `json:"url"`
	// Fine: the run uses a millisecond time scale (timeouts, leases, ticks and
	// background period of a few ms) so that deadlines fall between the steps
	// of requests in flight; otherwise seconds to hours.
	Fine bool `json:"fine,omitempty"`
	Epoch   int64    `json:"epoch"`
}

type Target struct {
	Name string          `json:"name"`
	Type string          `json:"type"`
	Data json.RawMessage `json:"data"`
}

type Source struct {
	Name string          `json:"name"`
	Type string          `json:"type"`
	Data json.RawMessage `json:"data"`
}

// ReqSpec is the replayable description of one API request.
type ReqSpec struct {
	Kind string `json:"kind"`

	Id      string            `json:"id,omitempty"`
	IKey    *string           `json:"ikey,omitempty"`
	Strict  bool              `json:"strict,omitempty"`
	State   string            `json:"state,omitempty"` // RESOLVED | REJECTED | REJECTED_CANCELED
	Headers map[string]string `json:"headers,omitempty"`
	Data    *string           `json:"data,omitempty"`
	Tags    map[string]string `json:"tags,omitempty"`
	// Timeout: absolute when TimeoutAbs is set, otherwise clock at submission + TimeoutRel
	TimeoutRel int64  `json:"timeout_rel,omitempty"`
	TimeoutAbs *int64 `json:"timeout_abs,omitempty"`

	// callbacks / subscriptions
	PromiseId string `json:"promise_id,omitempty"`
	RootId    string `json:"root_id,omitempty"`
	Recv      string `json:"recv,omitempty"` // raw JSON

	// schedules
	Cron           string            `json:"cron,omitempty"`
	Desc           string            `json:"desc,omitempty"`
	PromiseTimeout int64             `json:"promise_timeout,omitempty"`
	PromiseTags    map[string]string `json:"promise_tags,omitempty"`

	// locks / tasks
	Resource  string `json:"resource,omitempty"`
	Execution string `json:"execution,omitempty"`
	Process   string `json:"process,omitempty"`
	Ttl       int64  `json:"ttl,omitempty"`
	// Counter: literal when CounterFrom == "", else the counter of the task
	// in the latest committed snapshot ("snap") or in the latest dispatched
	// message for the task ("msg"), plus Counter as a delta.
	Counter     int    `json:"counter,omitempty"`
	CounterFrom string `json:"counter_from,omitempty"`

	// search
	States []string `json:"states,omitempty"` // PENDING RESOLVED REJECTED REJECTED_CANCELED REJECTED_TIMEDOUT
	Limit  int      `json:"limit,omitempty"`
	// Cursor: continue the previous search of this client with the cursor it got
	Cursor bool `json:"cursor,omitempty"`
	// RawCursor: a literal (possibly forged) cursor token handed to the api helper
	RawCursor string `json:"raw_cursor,omitempty"`
	// Forged: RawCursor carries a signature that does not verify; it must be refused
	Forged bool `json:"forged,omitempty"`
	// Synth: the kernel's answer to this (front-end) request is replaced by a synthesised outcome
	Synth *Synth `json:"synth,omitempty"`
	// Proto: "" = straight into the kernel queue, "http" / "grpc" = through that front end.
	// Kind "RawHTTP": State = method, Id = path, Cron = raw query, Headers, Data = raw body.
	// Kind "RawGRPC": Id = method name, Data = JSON of the request message (protojson), with
	// "__nil": ["field", ...] naming sub-messages to leave nil.
	Proto string `json:"proto,omitempty"`
}

// Step is one action of the simulator.
type Step struct {
	Op string `json:"op"` // req tick work deliver crash restart shutdown quiesce

	// req
	Client int      `json:"client,omitempty"`
	Req    *ReqSpec `json:"req,omitempty"`

	// tick
	Dt int64 `json:"dt,omitempty"`

	// work
	Sub  string         `json:"sub,omitempty"` // store router sender
	N    int            `json:"n,omitempty"`
	Perm []int          `json:"perm,omitempty"`
	Pre  []int          `json:"pre,omitempty"`  // positions (after perm) failed before processing
	Post []int          `json:"post,omitempty"` // positions whose completion is replaced by an error
	Sql  *faultdb.Fault `json:"sql,omitempty"`
	// CrashAt: "" | "mid" (with Sql.Where=stmt) | "before" (commit) | "after": the process dies there
	CrashAt string `json:"crash_at,omitempty"`
	// Outcomes of hand-offs for sender work: ok false error full
	Outcomes []string `json:"outcomes,omitempty"`

	// deliver
	K int `json:"k,omitempty"`

	// restart
	Down int64   `json:"down,omitempty"`
	Cfg  *Config `json:"cfg,omitempty"`

	// quiesce / settle
	Rounds int `json:"rounds,omitempty"`
	// settle: Dt (above) is the clock advance of the first round when it is at least the
	// signal timeout; Inner is the clock advance of the ticks inside a round (time passes while a
	// background coroutine waits for the store)
	Inner int64 `json:"inner,omitempty"`
	// settle: when FaultSeed is set the store/router/sender work inside the rounds suffers
	// failures before and after processing and SQL errors, drawn from that seed
	FaultSeed int64 `json:"fault_seed,omitempty"`

	// engine S: one store batch (JSON of []*t_aio.Transaction), observe the
	// database through a second connection before statement ObserveAt
	Txs       json.RawMessage `json:"txs,omitempty"`
	ObserveAt *int            `json:"observe_at,omitempty"`
}

// Plan is the replay file.
type Plan struct {
	Property string `json:"property"`
	Profile  string `json:"profile"`
	Seed     int64  `json:"seed"`
	Run      int    `json:"run"`
	Engine   string `json:"engine"`
	Config   Config `json:"config"`
	Steps    []Step `json:"steps"`
	// Expect is filled in for replay files of violations: the fingerprint that
	// must recur.
	Expect string `json:"expect,omitempty"`
	Note   string `json:"note,omitempty"`
	// History: the violation only shows when the runs From, From+Stride, ... Upto (generated from
	// Seed) are executed in one process before this one, i.e. it depends on process-wide state
	// production code kept from earlier simulated servers; replay regenerates that sequence
	History *PlanHistory `json:"history,omitempty"`
}

// PlanHistory names the runs a worker process executed up to a run.
type PlanHistory struct {
	From   int `json:"from"`
	Stride int `json:"stride"`
	Upto   int `json:"upto"`
}
