package k

import (
	"encoding/json"
	"fmt"
	"strings"

	"google.golang.org/grpc/codes"
	"google.golang.org/protobuf/proto"

	"github.com/resonatehq/resonate/internal/app/subsystems/api/grpc/pb"
	"github.com/resonatehq/resonate/internal/kernel/t_api"
	"github.com/resonatehq/resonate/pkg/promise"
	"github.com/resonatehq/resonate/pkg/schedule"
)

// grpcCodeFor is the statement's mapping of kernel statuses to gRPC codes,
// derived from the status class (status / 100 is the HTTP status).
func grpcCodeFor(st int) codes.Code {
	switch st / 100 {
	case 200, 201, 204:
		return codes.OK
	case 400:
		return codes.InvalidArgument
	case 403:
		return codes.PermissionDenied
	case 404:
		return codes.NotFound
	case 409:
		return codes.AlreadyExists
	case 500:
		return codes.Internal
	case 503:
		return codes.Unavailable
	}
	return codes.Unknown
}

func (r *ruleState) frontPanic(kind string, rend *Rendered) {
	cond := rend.Panic
	if len(cond) > 100 {
		cond = cond[:100]
	}
	v := &Violation{Rule: "panic", Props: P("C13", "C15"), Kind: "front:" + rend.Proto + ":" + kind, Cond: cond, Detail: "front end panicked while handling the request: " + rend.Panic, Ev: r.s.Ev, Step: r.s.stepNo, Frame: rend.Frame}
	r.s.Violations = append(r.s.Violations, v)
	r.s.logf("VIOLATION front panic %s %s", kind, rend.Panic)
}

// onFrontOnly: the front end answered without reaching the kernel.
func (r *ruleState) onFrontOnly(rec *ReqRec, rend *Rendered) {
	s := r.s
	kind := rec.Spec.Kind
	if rend == nil {
		return
	}
	if rend.Panic != "" {
		r.frontPanic(kind, rend)
		return
	}
	s.Probes["front_refused."+rend.Proto]++
	// a refusal by the front end is a client error and leaves no trace (nothing reached the kernel)
	if rend.Proto == "http" {
		if rend.HTTPStatus < 400 || rend.HTTPStatus > 499 {
			s.violate("C13.front_refusal_status", P("C13", "C15"), "http:"+kind, fmt.Sprintf("status=%d", rend.HTTPStatus), fmt.Sprintf("front end answered %d without consulting the kernel: %s", rend.HTTPStatus, rend.summary()))
		}
	} else if rend.GrpcCode != codes.InvalidArgument && rend.GrpcCode != codes.NotFound {
		s.violate("C13.front_refusal_status", P("C13", "C15"), "grpc:"+kind, fmt.Sprintf("code=%s", rend.GrpcCode), fmt.Sprintf("front end answered %s without consulting the kernel: %s", rend.GrpcCode, rend.summary()))
	}
	if rec.Spec.Forged && !(rend.Proto == "http" && rend.HTTPStatus == 400 || rend.Proto == "grpc" && rend.GrpcCode == codes.InvalidArgument) {
		s.violate("C14.forged_cursor", P("C14", "C13"), kind, "forged cursor not refused with the validation status", rend.summary())
	}
}

// onRendered: the kernel answered and the front end rendered the reply.
func (r *ruleState) onRendered(rec *ReqRec, rend *Rendered) {
	s := r.s
	kind := rec.Req.Kind.String()
	if rend == nil {
		s.violate("C15.no_reply", P("C15", "C12"), kind, "no rendered reply", rec.Tag)
		return
	}
	if rend.Panic != "" {
		r.frontPanic(kind, rend)
		return
	}
	if rec.Spec.Forged {
		s.violate("C14.forged_cursor", P("C14", "C13"), kind, "forged cursor reached the kernel", rec.Tag)
	}
	st := rec.Status()
	s.Probes[fmt.Sprintf("rendered.%s.%s.%d", rend.Proto, kind, st)]++
	checkRendering(s, rec.Req.Kind, rec.Res, rec.Err, st, rend, "sim")
}

func jsonOf(v any) string {
	b, _ := json.Marshal(v)
	return string(b)
}

// expectedHTTPBody builds, independently of the handlers, the JSON resource a
// 2xx reply must carry.
func expectedHTTPBody(kind t_api.Kind, res *t_api.Response) (string, bool) {
	switch kind {
	case t_api.ReadPromise:
		return jsonOf(res.ReadPromise.Promise), true
	case t_api.CreatePromise:
		return jsonOf(res.CreatePromise.Promise), true
	case t_api.CompletePromise:
		return jsonOf(res.CompletePromise.Promise), true
	case t_api.CreatePromiseAndTask:
		return jsonOf(map[string]any{"promise": res.CreatePromiseAndTask.Promise, "task": res.CreatePromiseAndTask.Task}), true
	case t_api.CreateCallback:
		return jsonOf(map[string]any{"callback": res.CreateCallback.Callback, "promise": res.CreateCallback.Promise}), true
	case t_api.CreateSubscription:
		return jsonOf(map[string]any{"callback": res.CreateSubscription.Callback, "promise": res.CreateSubscription.Promise}), true
	case t_api.ReadSchedule:
		return jsonOf(res.ReadSchedule.Schedule), true
	case t_api.CreateSchedule:
		return jsonOf(res.CreateSchedule.Schedule), true
	case t_api.DeleteSchedule, t_api.ReleaseLock:
		return "null", true
	case t_api.AcquireLock:
		return jsonOf(res.AcquireLock.Lock), true
	case t_api.HeartbeatLocks:
		return jsonOf(map[string]any{"locksAffected": res.HeartbeatLocks.LocksAffected}), true
	case t_api.HeartbeatTasks:
		return jsonOf(map[string]any{"tasksAffected": res.HeartbeatTasks.TasksAffected}), true
	case t_api.CompleteTask:
		return jsonOf(res.CompleteTask.Task), true
	case t_api.ClaimTask:
		c := res.ClaimTask
		if c.Status != t_api.StatusCreated || c.Task == nil || c.Task.Mesg == nil {
			return "null", true
		}
		promises := map[string]any{"root": map[string]any{"id": c.Task.Mesg.Root, "href": c.RootPromiseHref, "data": c.RootPromise}}
		if c.Task.Mesg.Type == "resume" {
			promises["leaf"] = map[string]any{"id": c.Task.Mesg.Leaf, "href": c.LeafPromiseHref, "data": c.LeafPromise}
		}
		return jsonOf(map[string]any{"type": c.Task.Mesg.Type, "promises": promises}), true
	case t_api.SearchPromises:
		return jsonOf(map[string]any{"promises": res.SearchPromises.Promises, "cursor": res.SearchPromises.Cursor}), true
	case t_api.SearchSchedules:
		return jsonOf(map[string]any{"schedules": res.SearchSchedules.Schedules, "cursor": res.SearchSchedules.Cursor}), true
	}
	return "", false
}

func pbStateName(st promise.State) string {
	switch st {
	case promise.Pending:
		return "PENDING"
	case promise.Resolved:
		return "RESOLVED"
	case promise.Rejected:
		return "REJECTED"
	case promise.Timedout:
		return "REJECTED_TIMEDOUT"
	case promise.Canceled:
		return "REJECTED_CANCELED"
	}
	return "?"
}

func cmpPbPromise(got *pb.Promise, want *promise.Promise) string {
	if want == nil {
		if got != nil {
			return "promise present although the kernel returned none"
		}
		return ""
	}
	if got == nil {
		return "promise missing"
	}
	var d []string
	chk := func(name string, a, b any) {
		if fmt.Sprint(a) != fmt.Sprint(b) {
			d = append(d, fmt.Sprintf("%s: %v != %v", name, a, b))
		}
	}
	chk("id", got.Id, want.Id)
	chk("state", got.State.String(), pbStateName(want.State))
	chk("timeout", got.Timeout, want.Timeout)
	chk("param.headers", normMap(got.GetParam().GetHeaders()), normMap(want.Param.Headers))
	chk("param.data", string(got.GetParam().GetData()), string(want.Param.Data))
	chk("value.headers", normMap(got.GetValue().GetHeaders()), normMap(want.Value.Headers))
	chk("value.data", string(got.GetValue().GetData()), string(want.Value.Data))
	chk("tags", normMap(got.Tags), normMap(want.Tags))
	chk("ikc", got.IdempotencyKeyForCreate, keyVal(want.IdempotencyKeyForCreate))
	chk("iku", got.IdempotencyKeyForComplete, keyVal(want.IdempotencyKeyForComplete))
	chk("createdOn", got.CreatedOn, i64Val(want.CreatedOn))
	chk("completedOn", got.CompletedOn, i64Val(want.CompletedOn))
	return strings.Join(d, "; ")
}

func keyVal[T ~string](k *T) string {
	if k == nil {
		return ""
	}
	return string(*k)
}

func i64Val(p *int64) int64 {
	if p == nil {
		return 0
	}
	return *p
}

func cmpPbSchedule(got *pb.Schedule, want *schedule.Schedule, full bool) string {
	if want == nil {
		if got != nil {
			return "schedule present although the kernel returned none"
		}
		return ""
	}
	if got == nil {
		return "schedule missing"
	}
	var d []string
	chk := func(name string, a, b any) {
		if fmt.Sprint(a) != fmt.Sprint(b) {
			d = append(d, fmt.Sprintf("%s: %v != %v", name, a, b))
		}
	}
	chk("id", got.Id, want.Id)
	chk("cron", got.Cron, want.Cron)
	chk("tags", normMap(got.Tags), normMap(want.Tags))
	chk("next", got.NextRunTime, want.NextRunTime)
	chk("last", got.LastRunTime, i64Val(want.LastRunTime))
	chk("ik", got.IdempotencyKey, keyVal(want.IdempotencyKey))
	chk("createdOn", got.CreatedOn, want.CreatedOn)
	chk("desc", got.Description, want.Description)
	chk("promiseId", got.PromiseId, want.PromiseId)
	chk("promiseTimeout", got.PromiseTimeout, want.PromiseTimeout)
	chk("promiseTags", normMap(got.PromiseTags), normMap(want.PromiseTags))
	chk("promiseParam.headers", normMap(got.GetPromiseParam().GetHeaders()), normMap(want.PromiseParam.Headers))
	chk("promiseParam.data", string(got.GetPromiseParam().GetData()), string(want.PromiseParam.Data))
	return strings.Join(d, "; ")
}

// checkRendering applies the C15 rules to one rendered reply.
func checkRendering(s *Sim, kind t_api.Kind, res *t_api.Response, kerr error, st int, rend *Rendered, origin string) {
	ok2xx := st >= 20000 && st < 30000
	props := P("C15")
	where := rend.Proto + ":" + kind.String()
	cond := fmt.Sprintf("status=%d", st)
	if rend.Proto == "http" {
		if rend.HTTPStatus != st/100 {
			s.violate("C15.http_status", props, where, cond, fmt.Sprintf("HTTP status %d for kernel status %d (%s)", rend.HTTPStatus, st, origin))
			return
		}
		body := strings.TrimSpace(string(rend.Body))
		if ok2xx && kerr == nil {
			want, known := expectedHTTPBody(kind, res)
			if !known {
				return
			}
			if body == "" && (want == "null" || rend.HTTPStatus == 204) {
				// 204 No Content carries no body by definition
				return
			}
			if !jsonEqual(body, want) {
				s.violate("C15.http_body", P("C15", "C20"), where, cond, fmt.Sprintf("body %s, expected %s", body, want))
			}
			return
		}
		var eb struct {
			Error *struct {
				Code    int    `json:"code"`
				Message string `json:"message"`
			} `json:"error"`
		}
		if err := json.Unmarshal([]byte(body), &eb); err != nil || eb.Error == nil || eb.Error.Code != st {
			s.violate("C15.http_error_body", props, where, cond, fmt.Sprintf("error body does not carry the kernel status %d: %s", st, body))
		}
		return
	}
	// gRPC
	want := grpcCodeFor(st)
	if rend.GrpcCode != want {
		s.violate("C15.grpc_code", props, where, cond, fmt.Sprintf("gRPC code %s for kernel status %d, expected %s (%s)", rend.GrpcCode, st, want, origin))
		return
	}
	if !ok2xx || kerr != nil {
		if rend.GrpcMsg != nil {
			s.violate("C15.grpc_msg_on_error", props, where, cond, "message returned together with an error")
		}
		return
	}
	if d := cmpGrpcMessage(kind, res, st, rend.GrpcMsg); d != "" {
		s.violate("C15.grpc_message", P("C15", "C20"), where, cond, d)
	}
}

func flag(name string, got bool, want bool) string {
	if got != want {
		return fmt.Sprintf("%s=%v, expected %v", name, got, want)
	}
	return ""
}

func first(ds ...string) string {
	var out []string
	for _, d := range ds {
		if d != "" {
			out = append(out, d)
		}
	}
	return strings.Join(out, "; ")
}

func cmpGrpcMessage(kind t_api.Kind, res *t_api.Response, st int, m proto.Message) string {
	noop := st == int(t_api.StatusOK)
	switch kind {
	case t_api.ReadPromise:
		x, ok := m.(*pb.ReadPromiseResponse)
		if !ok {
			return "wrong message type"
		}
		return cmpPbPromise(x.Promise, res.ReadPromise.Promise)
	case t_api.CreatePromise:
		x, ok := m.(*pb.CreatePromiseResponse)
		if !ok {
			return "wrong message type"
		}
		return first(flag("noop", x.Noop, noop), cmpPbPromise(x.Promise, res.CreatePromise.Promise))
	case t_api.CreatePromiseAndTask:
		x, ok := m.(*pb.CreatePromiseAndTaskResponse)
		if !ok {
			return "wrong message type"
		}
		return first(flag("noop", x.Noop, noop), cmpPbPromise(x.Promise, res.CreatePromiseAndTask.Promise))
	case t_api.CompletePromise:
		var p *pb.Promise
		var n bool
		switch x := m.(type) {
		case *pb.ResolvePromiseResponse:
			p, n = x.Promise, x.Noop
		case *pb.RejectPromiseResponse:
			p, n = x.Promise, x.Noop
		case *pb.CancelPromiseResponse:
			p, n = x.Promise, x.Noop
		default:
			return "wrong message type"
		}
		return first(flag("noop", n, noop), cmpPbPromise(p, res.CompletePromise.Promise))
	case t_api.CreateCallback, t_api.CreateSubscription:
		var p *pb.Promise
		var cb *pb.Callback
		var n bool
		wantP, wantCb := (*promise.Promise)(nil), false
		var wantId string
		var wantTimeout, wantCreated int64
		switch x := m.(type) {
		case *pb.CreateCallbackResponse:
			p, cb, n = x.Promise, x.Callback, x.Noop
			wantP = res.CreateCallback.Promise
			if c := res.CreateCallback.Callback; c != nil {
				wantCb, wantId, wantTimeout, wantCreated = true, c.Id, c.Timeout, c.CreatedOn
			}
		case *pb.CreateSubscriptionResponse:
			p, cb, n = x.Promise, x.Callback, x.Noop
			wantP = res.CreateSubscription.Promise
			if c := res.CreateSubscription.Callback; c != nil {
				wantCb, wantId, wantTimeout, wantCreated = true, c.Id, c.Timeout, c.CreatedOn
			}
		default:
			return "wrong message type"
		}
		d := first(flag("noop", n, noop), cmpPbPromise(p, wantP))
		if wantCb != (cb != nil) {
			d = first(d, fmt.Sprintf("callback present=%v, expected %v", cb != nil, wantCb))
		} else if cb != nil && (cb.Id != wantId || cb.Timeout != wantTimeout || cb.CreatedOn != wantCreated) {
			d = first(d, "callback fields differ")
		}
		return d
	case t_api.ReadSchedule:
		x, ok := m.(*pb.ReadScheduleResponse)
		if !ok {
			return "wrong message type"
		}
		return cmpPbSchedule(x.Schedule, res.ReadSchedule.Schedule, true)
	case t_api.CreateSchedule:
		x, ok := m.(*pb.CreatedScheduleResponse)
		if !ok {
			return "wrong message type"
		}
		return cmpPbSchedule(x.Schedule, res.CreateSchedule.Schedule, true)
	case t_api.DeleteSchedule:
		if _, ok := m.(*pb.DeleteScheduleResponse); !ok {
			return "wrong message type"
		}
	case t_api.AcquireLock:
		x, ok := m.(*pb.AcquireLockResponse)
		if !ok {
			return "wrong message type"
		}
		return flag("acquired", x.Acquired, st == int(t_api.StatusCreated))
	case t_api.ReleaseLock:
		x, ok := m.(*pb.ReleaseLockResponse)
		if !ok {
			return "wrong message type"
		}
		return flag("released", x.Released, st == int(t_api.StatusNoContent))
	case t_api.HeartbeatLocks:
		x, ok := m.(*pb.HeartbeatLocksResponse)
		if !ok {
			return "wrong message type"
		}
		if int64(x.LocksAffected) != res.HeartbeatLocks.LocksAffected {
			return "locksAffected differs"
		}
	case t_api.HeartbeatTasks:
		x, ok := m.(*pb.HeartbeatTasksResponse)
		if !ok {
			return "wrong message type"
		}
		if x.TasksAffected != res.HeartbeatTasks.TasksAffected {
			return "tasksAffected differs"
		}
	case t_api.CompleteTask:
		x, ok := m.(*pb.CompleteTaskResponse)
		if !ok {
			return "wrong message type"
		}
		return flag("completed", x.Completed, st == int(t_api.StatusCreated))
	case t_api.ClaimTask:
		x, ok := m.(*pb.ClaimTaskResponse)
		if !ok {
			return "wrong message type"
		}
		d := flag("claimed", x.Claimed, st == int(t_api.StatusCreated))
		c := res.ClaimTask
		if st == int(t_api.StatusCreated) && c.Task != nil && c.Task.Mesg != nil {
			if x.Mesg == nil || x.Mesg.Type != string(c.Task.Mesg.Type) {
				return first(d, "mesg missing or of another type")
			}
			root := x.Mesg.Promises["root"]
			if root == nil || root.Id != c.Task.Mesg.Root || root.Href != c.RootPromiseHref {
				d = first(d, "root promise entry differs")
			} else {
				d = first(d, cmpPbPromise(root.Data, c.RootPromise))
			}
			if c.Task.Mesg.Type == "resume" {
				leaf := x.Mesg.Promises["leaf"]
				if leaf == nil || leaf.Id != c.Task.Mesg.Leaf || leaf.Href != c.LeafPromiseHref {
					d = first(d, "leaf promise entry differs")
				} else {
					d = first(d, cmpPbPromise(leaf.Data, c.LeafPromise))
				}
			}
		}
		return d
	case t_api.SearchPromises:
		x, ok := m.(*pb.SearchPromisesResponse)
		if !ok {
			return "wrong message type"
		}
		if len(x.Promises) != len(res.SearchPromises.Promises) {
			return "number of promises differs"
		}
		for i := range x.Promises {
			if d := cmpPbPromise(x.Promises[i], res.SearchPromises.Promises[i]); d != "" {
				return d
			}
		}
		wantCursor := ""
		if c := res.SearchPromises.Cursor; c != nil {
			wantCursor, _ = c.Encode()
		}
		if x.Cursor != wantCursor {
			return "cursor differs"
		}
	case t_api.SearchSchedules:
		x, ok := m.(*pb.SearchSchedulesResponse)
		if !ok {
			return "wrong message type"
		}
		if len(x.Schedules) != len(res.SearchSchedules.Schedules) {
			return "number of schedules differs"
		}
		wantCursor := ""
		if c := res.SearchSchedules.Cursor; c != nil {
			wantCursor, _ = c.Encode()
		}
		if x.Cursor != wantCursor {
			return "cursor differs"
		}
	}
	return ""
}
