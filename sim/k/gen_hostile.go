package k

import (
	"encoding/json"
	"fmt"
	"math"
	"strings"

	"github.com/resonatehq/resonate/internal/kernel/t_api"
	"github.com/resonatehq/resonate/pkg/promise"
)

// hostile but protocol-legal client data (C20) and hostile requests (C13)

var hostileIds = []string{
	"a/b", "a:b", "a.b", "A", "a", "a ", " a", "a+b", "a+b/c", "1+1,2", "é+ü/ß", "a b/c", "a;b", "a,b", "ä", "a%2Fb", "a_b", "a%b", "<a&b>", `"q"`, "{x}", "a?b=c", "a#b", "a:b:c", "b:c", "日本", "a\tb", "{{.id}}", "a'b", "a\\b", "null", "123", "x/y/z",
}

var hostileStrings = []string{
	"", " ", "null", "true", "123", "-1", "{{", "{{.id}}", "{{.timestamp}}", "{{ .x }", `{"type":""}`, `{"type":"poll"}`, `{"type":"poll","data":null}`, `{"type":"nope","data":{}}`, `[]`, `"x"`, "a:b", "__invoke:p0", "__resume:a:b", "%", "_", "*", "%%", "\x00", " ", strings.Repeat("x", 5000),
	`poll://`, `poll:///id`, `http://[::1`, `://`, `poll://g/a/b/c`,
}

var hostileCrons = []string{"* * * * *", "* * * * * *", "@every 1s", "@every 0s", "@hourly", "0 0 31 2 *", "*/0 * * * *", "bogus", "", "60 * * * *", "* * * * * * *", "@every -1s", "TZ=Nowhere * * * * *", "CRON_TZ=UTC 0 0 * * *"}

func (g *Gen) hostileValue() any {
	r := g.R
	switch r.Intn(12) {
	case 0:
		return nil
	case 1:
		return ""
	case 2:
		return -1
	case 3:
		return 0
	case 4:
		return math.MaxInt64
	case 5:
		return 1e30
	case 6:
		return true
	case 7:
		return []any{}
	case 8:
		return map[string]any{}
	case 9:
		return map[string]any{"a": map[string]any{"b": 1}}
	case 10:
		return -9223372036854775808
	}
	return pick(r, hostileStrings)
}

type endpoint struct {
	method, path string
	body         func(g *Gen) map[string]any
	grpc         string
	grpcBody     func(g *Gen) map[string]any
}

func (g *Gen) someId() string {
	if g.R.Intn(4) == 0 {
		return pick(g.R, hostileIds)
	}
	// prefer promises that exist
	if g.R.Intn(3) != 0 && len(g.S.Last.Promises) > 0 {
		ids := make([]string, 0, len(g.S.Last.Promises))
		alsoDone := g.R.Intn(3) == 0
		for id, p := range g.S.Last.Promises {
			if p.State == 1 || alsoDone {
				ids = append(ids, id)
			}
		}
		if len(ids) > 0 {
			sortStrings(ids)
			return pick(g.R, ids)
		}
	}
	return g.promiseId()
}

func b64(s string) string {
	b, _ := json.Marshal([]byte(s))
	return strings.Trim(string(b), `"`)
}

func (g *Gen) endpoints() []endpoint {
	recvJSON := func() any {
		var v any
		_ = json.Unmarshal([]byte(pick(g.R, recvs)), &v)
		return v
	}
	grpcRecv := func() any {
		if g.R.Intn(2) == 0 {
			return map[string]any{"logical": pick(g.R, []string{"poll://g1/w1", "default", "nowhere", ""})}
		}
		return map[string]any{"physical": map[string]any{"type": pick(g.R, []string{"poll", "http", "", "x"}), "data": b64(pick(g.R, []string{`{"group":"g"}`, `null`, `{}`, `x`, ``}))}}
	}
	now := g.S.Now
	return []endpoint{
		{"POST", "/promises", func(g *Gen) map[string]any {
			return map[string]any{"id": g.someId(), "timeout": now + 100000, "param": map[string]any{"headers": map[string]any{"h": "v"}, "data": b64("d")}, "tags": map[string]any{"resonate:invoke": pick(g.R, routingTags)}}
		}, "CreatePromise", func(g *Gen) map[string]any {
			return map[string]any{"id": g.someId(), "timeout": fmt.Sprint(now + 100000), "param": map[string]any{"headers": map[string]any{"h": "v"}, "data": b64("d")}, "tags": map[string]any{"resonate:invoke": pick(g.R, routingTags)}, "idempotencyKey": "k", "strict": false}
		}},
		{"POST", "/promises/task", func(g *Gen) map[string]any {
			return map[string]any{"promise": map[string]any{"id": g.someId(), "timeout": now + 100000, "tags": map[string]any{"resonate:invoke": "poll://g/w"}}, "task": map[string]any{"processId": "w0", "ttl": 1000}}
		}, "CreatePromiseAndTask", func(g *Gen) map[string]any {
			return map[string]any{"promise": map[string]any{"id": g.someId(), "timeout": fmt.Sprint(now + 100000), "tags": map[string]any{"resonate:invoke": "poll://g/w"}}, "task": map[string]any{"processId": "w0", "ttl": 1000}}
		}},
		{"PATCH", "/promises/" + g.someId(), func(g *Gen) map[string]any {
			return map[string]any{"state": pick(g.R, []string{"RESOLVED", "REJECTED", "REJECTED_CANCELED", "resolved", "PENDING", "pending", "Pending", "REJECTED_TIMEDOUT", "rejected_timedout", "x", ""}), "value": map[string]any{"headers": map[string]any{"h": "v"}, "data": b64("d")}}
		}, pick(g.R, []string{"ResolvePromise", "RejectPromise", "CancelPromise"}), func(g *Gen) map[string]any {
			return map[string]any{"id": g.someId(), "value": map[string]any{"headers": map[string]any{"h": "v"}, "data": b64("d")}, "idempotencyKey": "k"}
		}},
		{"POST", "/callbacks", func(g *Gen) map[string]any {
			return map[string]any{"Id": "cb", "promiseId": g.someId(), "rootPromiseId": g.someId(), "timeout": now + 100000, "recv": recvJSON()}
		}, "CreateCallback", func(g *Gen) map[string]any {
			return map[string]any{"id": "cb", "promiseId": g.someId(), "rootPromiseId": g.someId(), "timeout": fmt.Sprint(now + 100000), "recv": grpcRecv()}
		}},
		{"POST", "/subscriptions", func(g *Gen) map[string]any {
			return map[string]any{"Id": pick(g.R, []string{"s0", "a:b", ""}), "promiseId": g.someId(), "timeout": now + 100000, "recv": recvJSON()}
		}, "CreateSubscription", func(g *Gen) map[string]any {
			return map[string]any{"id": pick(g.R, []string{"s0", "a:b", ""}), "promiseId": g.someId(), "timeout": fmt.Sprint(now + 100000), "recv": grpcRecv()}
		}},
		{"POST", "/schedules", func(g *Gen) map[string]any {
			return map[string]any{"id": pick(g.R, g.P.Schedules), "cron": pick(g.R, hostileCrons), "promiseId": pick(g.R, []string{"{{.id}}.{{.timestamp}}", "x", "{{", "{{.nope}}", "{{.id | html}}", "{{template \"x\"}}", "a<b>.{{.timestamp}}"}), "promiseTimeout": 1000, "promiseTags": map[string]any{"resonate:invoke": pick(g.R, routingTags)}}
		}, "CreateSchedule", func(g *Gen) map[string]any {
			return map[string]any{"id": pick(g.R, g.P.Schedules), "cron": pick(g.R, hostileCrons), "promiseId": pick(g.R, []string{"{{.id}}.{{.timestamp}}", "x", "{{", "{{.nope}}", "a<b>.{{.timestamp}}"}), "promiseTimeout": "1000", "promiseTags": map[string]any{"resonate:invoke": pick(g.R, routingTags)}}
		}},
		{"POST", "/locks/acquire", func(g *Gen) map[string]any {
			return map[string]any{"resourceId": "l0", "executionId": "e0", "processId": "w0", "ttl": 1000}
		}, "AcquireLock", func(g *Gen) map[string]any {
			return map[string]any{"resourceId": "l0", "executionId": "e0", "processId": "w0", "ttl": "1000"}
		}},
		{"POST", "/locks/release", func(g *Gen) map[string]any { return map[string]any{"resourceId": "l0", "executionId": "e0"} }, "ReleaseLock", func(g *Gen) map[string]any { return map[string]any{"resourceId": "l0", "executionId": "e0"} }},
		{"POST", "/locks/heartbeat", func(g *Gen) map[string]any { return map[string]any{"processId": "w0"} }, "HeartbeatLocks", func(g *Gen) map[string]any { return map[string]any{"processId": "w0"} }},
		{"POST", "/tasks/claim", func(g *Gen) map[string]any {
			return map[string]any{"id": pick(g.R, g.taskIds()), "counter": 1, "processId": "w0", "ttl": 1000}
		}, "ClaimTask", func(g *Gen) map[string]any {
			return map[string]any{"id": pick(g.R, g.taskIds()), "counter": 1, "processId": "w0", "ttl": 1000}
		}},
		{"POST", "/tasks/complete", func(g *Gen) map[string]any { return map[string]any{"id": pick(g.R, g.taskIds()), "counter": 1} }, "CompleteTask", func(g *Gen) map[string]any { return map[string]any{"id": pick(g.R, g.taskIds()), "counter": 1} }},
		{"POST", "/tasks/heartbeat", func(g *Gen) map[string]any { return map[string]any{"processId": "w0"} }, "HeartbeatTasks", func(g *Gen) map[string]any { return map[string]any{"processId": "w0"} }},
	}
}

// mutate applies one or two field-wise mutations to a JSON object.
func (g *Gen) mutate(m map[string]any) {
	keys := make([]string, 0, len(m))
	for k2 := range m {
		keys = append(keys, k2)
	}
	sortStrings(keys)
	if len(keys) == 0 {
		return
	}
	n := 1 + g.R.Intn(2)
	for i := 0; i < n; i++ {
		k2 := pick(g.R, keys)
		if sub, ok := m[k2].(map[string]any); ok && g.R.Intn(2) == 0 {
			g.mutate(sub)
			continue
		}
		switch g.R.Intn(4) {
		case 0:
			delete(m, k2)
		default:
			m[k2] = g.hostileValue()
		}
	}
}

// forgedCursor returns a cursor token; wellSigned tokens are signed with the
// (source-constant) key but carry a hostile payload, the others have a broken signature.
func (g *Gen) forgedCursor(kind string) (string, bool) {
	r := g.R
	wellSigned := r.Intn(2) == 0
	var tok string
	if kind == "SearchPromises" {
		next := &t_api.SearchPromisesRequest{Id: pick(r, []string{"*", "", "p*"}), Limit: pick(r, []int{0, -1, 1, 1000000}), Tags: map[string]string{}}
		switch r.Intn(3) {
		case 0:
			next.States = nil
		case 1:
			next.States = []promise.State{promise.Pending}
		case 2:
			next.States = []promise.State{}
		}
		if r.Intn(2) == 0 {
			next.Tags = nil
		}
		tok, _ = (&t_api.Cursor[t_api.SearchPromisesRequest]{Next: next}).Encode()
		if r.Intn(4) == 0 {
			tok, _ = (&t_api.Cursor[t_api.SearchPromisesRequest]{Next: nil}).Encode()
		}
	} else {
		next := &t_api.SearchSchedulesRequest{Id: pick(r, []string{"*", "", "s*"}), Limit: pick(r, []int{0, -1, 1, 1000000})}
		if r.Intn(2) == 0 {
			next.Tags = map[string]string{}
		}
		tok, _ = (&t_api.Cursor[t_api.SearchSchedulesRequest]{Next: next}).Encode()
	}
	if !wellSigned {
		// corrupt the signature
		i := strings.LastIndex(tok, ".")
		sig := []byte(tok[i+1:])
		if len(sig) > 0 {
			if sig[0] == 'A' {
				sig[0] = 'B'
			} else {
				sig[0] = 'A'
			}
		}
		tok = tok[:i+1] + string(sig)
	}
	return tok, !wellSigned
}

// forgedValidCursor returns a cursor whose content would pass every check of the api helper but whose
// signature does not verify: either the signature is damaged, or the payload of one genuine cursor
// is combined with the signature of another.
func (g *Gen) forgedValidCursor(kind string) string {
	r := g.R
	mk := func(sid int64, limit int) string {
		var tok string
		if kind == "SearchPromises" {
			tok, _ = (&t_api.Cursor[t_api.SearchPromisesRequest]{Next: &t_api.SearchPromisesRequest{Id: "*", States: []promise.State{promise.Pending, promise.Resolved, promise.Rejected, promise.Timedout, promise.Canceled}, Tags: map[string]string{}, Limit: limit, SortId: &sid}}).Encode()
		} else {
			tok, _ = (&t_api.Cursor[t_api.SearchSchedulesRequest]{Next: &t_api.SearchSchedulesRequest{Id: "*", Tags: map[string]string{}, Limit: limit, SortId: &sid}}).Encode()
		}
		return tok
	}
	a, b := mk(int64(1+r.Intn(20)), 1+r.Intn(3)), mk(1_000_000, 100)
	if r.Intn(2) == 0 {
		// payload of b under the signature of a
		pa, pb := strings.Split(a, "."), strings.Split(b, ".")
		if len(pa) == 3 && len(pb) == 3 {
			return pb[0] + "." + pb[1] + "." + pa[2]
		}
	}
	i := strings.LastIndex(a, ".")
	sig := []byte(a[i+1:])
	if len(sig) > 0 {
		if sig[0] == 'A' {
			sig[0] = 'B'
		} else {
			sig[0] = 'A'
		}
	}
	return a[:i+1] + string(sig)
}

// hostileReq produces one hostile request through one of the front ends.
func (g *Gen) hostileReq() *ReqSpec {
	r := g.R
	if r.Intn(8) == 0 {
		kind := pick(r, []string{"SearchPromises", "SearchSchedules"})
		if r.Intn(2) == 0 {
			// a cursor exactly as the server issues it, accompanied by hostile search parameters
			sid := int64(r.Intn(20))
			var tok string
			if kind == "SearchPromises" {
				tok, _ = (&t_api.Cursor[t_api.SearchPromisesRequest]{Next: &t_api.SearchPromisesRequest{Id: "*", States: []promise.State{promise.Pending, promise.Resolved, promise.Rejected, promise.Timedout, promise.Canceled}, Tags: map[string]string{}, Limit: 2, SortId: &sid}}).Encode()
			} else {
				tok, _ = (&t_api.Cursor[t_api.SearchSchedulesRequest]{Next: &t_api.SearchSchedulesRequest{Id: "*", Tags: map[string]string{}, Limit: 2, SortId: &sid}}).Encode()
			}
			sp := &ReqSpec{Kind: kind, RawCursor: tok, Id: pick(r, []string{"*", "", "p*"}), Limit: pick(r, []int{-1, 0, 1, 101, 1<<31 - 1, -1 << 31}), Proto: pick(r, []string{"http", "grpc", "grpc"})}
			if r.Intn(3) == 0 {
				sp.States = []string{pick(r, []string{"pending", "bogus", ""})}
			}
			return sp
		}
		tok, forged := g.forgedCursor(kind)
		return &ReqSpec{Kind: kind, RawCursor: tok, Forged: forged, Proto: pick(r, []string{"http", "grpc"})}
	}
	eps := g.endpoints()
	ep := eps[r.Intn(len(eps))]
	if r.Intn(2) == 0 {
		body := ep.body(g)
		if r.Intn(5) < 2 {
			g.mutate(body)
		}
		raw, _ := json.Marshal(body)
		s := string(raw)
		switch r.Intn(20) {
		case 0:
			s = s[:len(s)/2]
		case 1:
			s = "null"
		case 2:
			s = ""
		case 3:
			s = "[" + s + "]"
		}
		hd := map[string]string{"content-type": "application/json"}
		if r.Intn(4) == 0 {
			hd["strict"] = pick(r, []string{"true", "false", "maybe", ""})
		}
		if r.Intn(4) == 0 {
			hd["idempotency-key"] = pick(r, hostileStrings)
		}
		path := ep.path
		q := ""
		if r.Intn(10) == 0 {
			// search endpoints with hostile parameters
			path = pick(r, []string{"/promises", "/schedules"})
			q = pick(r, []string{"id=*&limit=-1", "id=*&limit=abc", "id=&limit=1", "limit=1", "id=*&state=bogus", "id=*&limit=101", "id=*&cursor=garbage", "id=*&tags[a.b]=c&tags[\"x]=y", "id=%25&limit=1", "id=*&limit=0"})
			return &ReqSpec{Kind: "RawHTTP", Proto: "http", State: "GET", Id: path, Cron: q}
		}
		if r.Intn(10) == 0 {
			path = pick(r, []string{"/tasks/claim/" + pick(r, g.taskIds()) + "/" + pick(r, []string{"1", "0", "-1", "x", "99999999999999999999"}), "/tasks/complete/x/1", "/tasks/heartbeat/x/1", "/promises/", "/promises//", "/schedules/", "/nope"})
			return &ReqSpec{Kind: "RawHTTP", Proto: "http", State: pick(r, []string{"GET", "GET", "DELETE", "PATCH"}), Id: path}
		}
		return &ReqSpec{Kind: "RawHTTP", Proto: "http", State: ep.method, Id: path, Headers: hd, Data: &s}
	}
	body := ep.grpcBody(g)
	if r.Intn(5) < 2 {
		g.mutateGrpc(body)
	}
	raw, _ := json.Marshal(body)
	s := string(raw)
	return &ReqSpec{Kind: "RawGRPC", Proto: "grpc", Id: ep.grpc, Data: &s}
}

// mutateGrpc mutates within what a protobuf client can express: fields
// absent (zero), empty, negative, huge; sub-messages absent.
func (g *Gen) mutateGrpc(m map[string]any) {
	keys := make([]string, 0, len(m))
	for k2 := range m {
		keys = append(keys, k2)
	}
	sortStrings(keys)
	if len(keys) == 0 {
		return
	}
	n := 1 + g.R.Intn(2)
	for i := 0; i < n; i++ {
		k2 := pick(g.R, keys)
		switch v := m[k2].(type) {
		case map[string]any:
			if g.R.Intn(2) == 0 {
				delete(m, k2)
			} else {
				g.mutateGrpc(v)
			}
		case string:
			if _, err := fmt.Sscanf(v, "%d", new(int64)); err == nil && g.R.Intn(2) == 0 {
				m[k2] = pick(g.R, []string{"-1", "0", "9223372036854775807", "-9223372036854775808"})
			} else {
				m[k2] = pick(g.R, hostileStrings)
			}
		case int, float64:
			m[k2] = pick(g.R, []int{-1, 0, 2147483647, -2147483648})
		default:
			delete(m, k2)
		}
	}
}
