package k

import (
	"encoding/json"
	"fmt"
	"sort"
	"strings"

	"github.com/resonatehq/resonate/internal/kernel/t_aio"
	"github.com/resonatehq/resonate/internal/kernel/t_api"
	"github.com/resonatehq/resonate/pkg/idempotency"
	"github.com/resonatehq/resonate/pkg/promise"
	"github.com/resonatehq/resonate/pkg/schedule"
	"github.com/resonatehq/resonate/pkg/task"

	"github.com/resonatehq/resonate/verif/sim/tables"
)

// This file is the sequential reference specification of the API (DESIGN.md
// Appendix A), written from the property statements. A response is accepted
// when there is a linearisation point — one of the states the request's own
// store transactions saw or produced — and a server clock τ between the
// request's submission and its response for which the specification gives
// exactly that status and body.

type cand struct {
	st *tables.Tables
	tr *TxRec
}

func (r *ruleState) candidates(req *ReqRec) []cand {
	var out []cand
	for _, tr := range req.Txs {
		if !tr.Committed || tr.Pre == nil || tr.Post == nil {
			continue
		}
		out = append(out, cand{tr.Pre, tr}, cand{tr.Post, tr})
	}
	return out
}

// taus lists the clock values of ticks between submission and response.
func (r *ruleState) taus(req *ReqRec) []int64 {
	seen := map[int64]bool{}
	var out []int64
	ticks := r.s.Ticks
	i := sort.Search(len(ticks), func(i int) bool { return ticks[i] >= req.TCall })
	for ; i < len(ticks) && ticks[i] <= req.TResp; i++ {
		if !seen[ticks[i]] {
			seen[ticks[i]] = true
			out = append(out, ticks[i])
		}
	}
	if len(out) > 64 {
		// keep the ends and the values around stored deadlines
		out = append(out[:32], out[len(out)-32:]...)
	}
	return out
}

// eff applies an overdue time-out to a promise row (copy).
func eff(p *tables.Promise, tau int64) *tables.Promise {
	if p == nil || p.State != 1 || p.Timeout > tau {
		return p
	}
	c := *p
	c.State = 16
	if v, _ := tagOf(p, "resonate:timeout"); v == "true" {
		c.State = 2
	}
	empty, none := "{}", ""
	c.ValueHeaders, c.ValueData = &empty, &none
	c.IkComplete = nil
	to := p.Timeout
	c.CompletedOn = &to
	return &c
}

// timedOutBy reports whether one of the request's own transactions took the
// promise out of pending by the time-out path.
func timedOutBy(req *ReqRec, id string) bool {
	for _, tr := range req.Txs {
		if !tr.Committed || tr.Results == nil {
			continue
		}
		for i, c := range tr.Tx.Commands {
			if c.Kind == t_aio.UpdatePromise && c.UpdatePromise.Id == id && i < len(tr.Results) && tr.Results[i] != nil && tr.Results[i].UpdatePromise.RowsAffected == 1 {
				return true
			}
		}
	}
	return false
}

// effFor applies an overdue time-out the way the specification does: the
// operation that finds a pending promise overdue performs the completion
// itself, so this reading is only available to a request whose own
// transaction did so.
func effFor(req *ReqRec, p *tables.Promise, tau int64) *tables.Promise {
	if p == nil || p.State != 1 || p.Timeout > tau {
		return p
	}
	if !timedOutBy(req, p.Id) {
		return nil
	}
	return eff(p, tau)
}

func rowSig(p *tables.Promise) string { return rowCreationSig(p) + " " + rowCompletionSig(p) }
func bodySig(p *promise.Promise) string {
	if p == nil {
		return "<nil>"
	}
	return creationSig(p) + " " + completionSig(p)
}

func keyMatch(a *string, b *idempotency.Key) bool {
	return a != nil && b != nil && *a == string(*b)
}

func alreadyStatus(state int) t_api.StatusCode {
	switch state {
	case 2:
		return t_api.StatusPromiseAlreadyResolved
	case 4:
		return t_api.StatusPromiseAlreadyRejected
	case 8:
		return t_api.StatusPromiseAlreadyCanceled
	}
	return t_api.StatusPromiseAlreadyTimedout
}

// wrote reports whether one of the request's committed transactions contains
// a command of the given kind that changed rows.
func wrote(req *ReqRec, kinds ...t_aio.StoreKind) *TxRec {
	for _, tr := range req.Txs {
		if !tr.Committed || tr.Results == nil {
			continue
		}
		for i, c := range tr.Tx.Commands {
			for _, k := range kinds {
				if c.Kind != k || i >= len(tr.Results) || tr.Results[i] == nil {
					continue
				}
				res := tr.Results[i]
				var n int64
				switch k {
				case t_aio.CreatePromise:
					n = res.CreatePromise.RowsAffected
				case t_aio.CreatePromiseAndTask:
					n = res.CreatePromiseAndTask.PromiseRowsAffected
				case t_aio.UpdatePromise:
					n = res.UpdatePromise.RowsAffected
				case t_aio.CreateCallback:
					n = res.CreateCallback.RowsAffected
				case t_aio.CreateSchedule:
					n = res.CreateSchedule.RowsAffected
				case t_aio.DeleteSchedule:
					n = res.DeleteSchedule.RowsAffected
				case t_aio.AcquireLock:
					n = res.AcquireLock.RowsAffected
				case t_aio.ReleaseLock:
					n = res.ReleaseLock.RowsAffected
				case t_aio.UpdateTask:
					n = res.UpdateTask.RowsAffected
				}
				if n > 0 {
					return tr
				}
			}
		}
	}
	return nil
}

func (r *ruleState) specFail(req *ReqRec, props []string, why string) {
	r.s.violate("spec."+req.Req.Kind.String(), props, req.Req.Kind.String(), fmt.Sprintf("status=%d", req.Status()), fmt.Sprintf("%s: request %s = %s; response %v; %s", req.Tag, req.Req.Kind, req.Req, req.Res, why))
}

func (r *ruleState) specOnResponse(req *ReqRec) {
	s := r.s
	if req.Req == nil {
		return
	}
	// C04 (a): black box on the response clock
	if req.Res != nil {
		var shown []*promise.Promise
		switch req.Res.Kind {
		case t_api.ReadPromise:
			shown = append(shown, req.Res.ReadPromise.Promise)
		case t_api.CreatePromise:
			shown = append(shown, req.Res.CreatePromise.Promise)
		case t_api.CreatePromiseAndTask:
			shown = append(shown, req.Res.CreatePromiseAndTask.Promise)
		case t_api.CompletePromise:
			shown = append(shown, req.Res.CompletePromise.Promise)
		case t_api.SearchPromises:
			shown = req.Res.SearchPromises.Promises
		}
		for _, p := range shown {
			if p == nil {
				continue
			}
			if p.State == promise.Pending && p.Timeout <= req.TResp {
				s.violate("C04.a.pending_after_deadline", P("C04"), req.Req.Kind.String(), fmt.Sprintf("status=%d", req.Status()), fmt.Sprintf("%s answered at clock %d shows promise %q pending with timeout %d", req.Tag, req.TResp, p.Id, p.Timeout))
			}
			timedOut := p.State == promise.Timedout || (p.State == promise.Resolved && p.Tags["resonate:timeout"] == "true" && p.CompletedOn != nil && *p.CompletedOn == p.Timeout && len(p.Value.Data) == 0 && p.IdempotencyKeyForComplete == nil)
			if timedOut && p.Timeout > req.TResp {
				s.violate("C04.e.timedout_before_deadline", P("C04"), req.Req.Kind.String(), fmt.Sprintf("status=%d", req.Status()), fmt.Sprintf("%s answered at clock %d shows promise %q timed out with timeout %d", req.Tag, req.TResp, p.Id, p.Timeout))
			}
			if p.State == promise.Timedout && (len(p.Value.Data) != 0 || len(p.Value.Headers) != 0 || p.CompletedOn == nil || *p.CompletedOn != p.Timeout) {
				s.violate("C04.f.timedout_shape", P("C04"), req.Req.Kind.String(), fmt.Sprintf("status=%d", req.Status()), fmt.Sprintf("%s shows timed-out promise with value or completion time != timeout: %s", req.Tag, p))
			}
		}
	}
	if req.Err != nil {
		r.specOnError(req)
		return
	}
	if st := req.Status(); st == int(t_api.StatusFieldValidationError) || st == int(t_api.StatusCallbackInvalidPromise) {
		for _, tr := range req.Txs {
			if tr.Committed && tr.Wrote {
				s.violate("T15.rejected_left_trace", P("C13", "C03"), req.Req.Kind.String(), fmt.Sprintf("status=%d", st), fmt.Sprintf("%s was refused as invalid but committed a write", req.Tag))
			}
		}
	}
	cands := r.candidates(req)
	taus := r.taus(req)
	if len(taus) == 0 {
		taus = []int64{req.TResp}
	}
	needCands := true
	switch req.Req.Kind {
	case t_api.CreateCallback:
		if req.Req.CreateCallback.PromiseId == req.Req.CreateCallback.RootPromiseId {
			needCands = false
		}
	case t_api.SearchPromises, t_api.SearchSchedules:
		r.searchOnResponse(req)
		return
	}
	if needCands && len(cands) == 0 {
		// an answer that is not an error although none of the request's store transactions was
		// committed: the store reported success for a batch it rolled back
		uncommitted := 0
		for _, tr := range req.Txs {
			if !tr.Committed {
				uncommitted++
			}
		}
		if uncommitted > 0 && uncommitted == len(req.Txs) {
			r.specFail(req, append(P("C02", "C06"), ownersOf(req.Req.Kind.String())...), "answered as if it had been served although none of its store transactions committed")
			return
		}
		s.Probes["spec_unattributable"]++
		return
	}
	s.Probes["spec_checked"]++
	switch req.Req.Kind {
	case t_api.ReadPromise:
		r.specReadPromise(req, cands, taus)
	case t_api.CreatePromise, t_api.CreatePromiseAndTask:
		r.specCreatePromise(req, cands, taus)
	case t_api.CompletePromise:
		r.specCompletePromise(req, cands, taus)
	case t_api.CreateCallback, t_api.CreateSubscription:
		r.specRegistration(req, cands, taus)
	case t_api.ReadSchedule, t_api.CreateSchedule, t_api.DeleteSchedule:
		r.specSchedule(req, cands, taus)
	case t_api.AcquireLock, t_api.ReleaseLock, t_api.HeartbeatLocks:
		r.specLock(req, cands, taus)
	case t_api.ClaimTask, t_api.CompleteTask, t_api.HeartbeatTasks:
		r.specTask(req, cands, taus)
	}
}

// specOnError: replies carrying an error are "maybe effect": the effect is one
// whole write transaction or nothing; only explicit platform codes are allowed.
func (r *ruleState) specOnError(req *ReqRec) {
	s := r.s
	code := req.Status()
	if req.Req.Kind == t_api.CreatePromiseAndTask && code == int(t_api.StatusPromiseRecvNotFound) {
		// refused rather than half-done
		if tr := wrote(req, t_aio.CreatePromise, t_aio.CreatePromiseAndTask); tr != nil {
			s.violate("spec.create_with_task_half_done", P("C08", "C02"), req.Req.Kind.String(), "refused but created", fmt.Sprintf("%s was refused (%d) but created a row", req.Tag, code))
		}
		s.Probes["create_with_task_refused"]++
		return
	}
	if code < 50000 || code > 59999 {
		s.violate("spec.error_code", P("C12", "C02"), req.Req.Kind.String(), fmt.Sprintf("status=%d", code), fmt.Sprintf("%s: error reply with a non-platform code: %v", req.Tag, req.Err))
	}
	s.Probes["error_reply"]++
}

// ------------------------------------------------------------------ promises

func (r *ruleState) specReadPromise(req *ReqRec, cands []cand, taus []int64) {
	id := req.Req.ReadPromise.Id
	res := req.Res.ReadPromise
	for _, c := range cands {
		row := c.st.Promises[id]
		if row == nil {
			if res.Status == t_api.StatusPromiseNotFound && res.Promise == nil {
				return
			}
			continue
		}
		if res.Status != t_api.StatusOK || res.Promise == nil {
			continue
		}
		for _, tau := range taus {
			if e := effFor(req, row, tau); e != nil && rowSig(e) == bodySig(res.Promise) {
				return
			}
		}
	}
	r.specFail(req, P("C02", "C01"), "no state seen by the request and no clock in its interval explains the reply; states: "+describePromise(cands, id))
}

func describePromise(cands []cand, id string) string {
	var parts []string
	seen := map[string]bool{}
	for _, c := range cands {
		d := "absent"
		if row := c.st.Promises[id]; row != nil {
			d = row.String()
		}
		if !seen[d] {
			seen[d] = true
			parts = append(parts, d)
		}
	}
	return strings.Join(parts, " | ")
}

func (r *ruleState) specCreatePromise(req *ReqRec, cands []cand, taus []int64) {
	var cr *t_api.CreatePromiseRequest
	var status t_api.StatusCode
	var body *promise.Promise
	var tbody *task.Task
	withTask := req.Req.Kind == t_api.CreatePromiseAndTask
	if withTask {
		cr = req.Req.CreatePromiseAndTask.Promise
		status, body, tbody = req.Res.CreatePromiseAndTask.Status, req.Res.CreatePromiseAndTask.Promise, req.Res.CreatePromiseAndTask.Task
	} else {
		cr = req.Req.CreatePromise
		status, body = req.Res.CreatePromise.Status, req.Res.CreatePromise.Promise
	}
	created := wrote(req, t_aio.CreatePromise, t_aio.CreatePromiseAndTask)
	if (status == t_api.StatusCreated) != (created != nil) {
		r.specFail(req, P("C02", "C03"), fmt.Sprintf("status says created=%v but the request's transactions created=%v", status == t_api.StatusCreated, created != nil))
		return
	}
	if created != nil {
		if created.Pre == nil || created.Post == nil {
			return
		}
		if created.Pre.Promises[cr.Id] != nil {
			r.specFail(req, P("C02", "C03"), "created although the promise existed")
			return
		}
		row := created.Post.Promises[cr.Id]
		if row == nil || body == nil || rowSig(row) != bodySig(body) {
			r.specFail(req, P("C02", "C01", "C20"), fmt.Sprintf("body differs from the created row %v", row))
			return
		}
		want := &promise.Promise{Id: cr.Id, State: promise.Pending, Param: cr.Param, Timeout: cr.Timeout, IdempotencyKeyForCreate: cr.IdempotencyKey, Tags: cr.Tags, CreatedOn: body.CreatedOn}
		if creationSig(want) != creationSig(body) || body.State != promise.Pending {
			r.specFail(req, P("C02", "C20"), "created promise differs from the request: want "+creationSig(want))
			return
		}
		if body.CreatedOn == nil || *body.CreatedOn < req.TCall || *body.CreatedOn > req.TResp {
			r.specFail(req, P("C02"), "creation time outside the request interval")
			return
		}
		if withTask {
			trow := created.Post.Tasks["__invoke:"+cr.Id]
			tq := req.Req.CreatePromiseAndTask.Task
			if trow == nil || tbody == nil || trow.State != 4 || sderef(trow.ProcessId) != tq.ProcessId || trow.Counter != 1 || trow.Ttl != int64(tq.Ttl) || trow.ExpiresAt-trow.Ttl < req.TCall || trow.ExpiresAt-trow.Ttl > req.TResp ||
				tbody.Id != trow.Id || tbody.Counter != 1 || tbody.Timeout != cr.Timeout {
				r.specFail(req, P("C02", "C08", "C07"), fmt.Sprintf("task created with the promise is not claimed by the caller as requested: row %v body %v", trow, tbody))
			}
		}
		return
	}
	// existing promise
	for _, c := range cands {
		row := c.st.Promises[cr.Id]
		if row == nil {
			continue
		}
		for _, tau := range taus {
			p := effFor(req, row, tau)
			if p == nil {
				continue
			}
			want := t_api.StatusPromiseAlreadyExists
			if keyMatch(p.IkCreate, cr.IdempotencyKey) && !(cr.Strict && p.State != 1) {
				want = t_api.StatusOK
			}
			if status == want && body != nil && rowSig(p) == bodySig(body) && tbody == nil {
				return
			}
		}
	}
	r.specFail(req, P("C02", "C03"), "no state seen by the request explains the reply; states: "+describePromise(cands, cr.Id))
}

func (r *ruleState) specCompletePromise(req *ReqRec, cands []cand, taus []int64) {
	cp := req.Req.CompletePromise
	res := req.Res.CompletePromise
	// did this request install the caller's state?
	var installed *TxRec
	for _, tr := range req.Txs {
		if !tr.Committed || tr.Results == nil {
			continue
		}
		for i, c := range tr.Tx.Commands {
			if c.Kind == t_aio.UpdatePromise && i < len(tr.Results) && tr.Results[i] != nil && tr.Results[i].UpdatePromise.RowsAffected == 1 && tr.Post != nil {
				if row := tr.Post.Promises[cp.Id]; row != nil && row.State == int(cp.State) && !(row.CompletedOn != nil && *row.CompletedOn == row.Timeout) {
					installed = tr
				}
			}
		}
	}
	if (res.Status == t_api.StatusCreated) != (installed != nil) {
		r.specFail(req, P("C02", "C03"), fmt.Sprintf("status says completed-now=%v but the request's transactions installed its state=%v", res.Status == t_api.StatusCreated, installed != nil))
		return
	}
	if installed != nil {
		row := installed.Post.Promises[cp.Id]
		pre := installed.Pre.Promises[cp.Id]
		if pre == nil || pre.State != 1 {
			r.specFail(req, P("C02", "C01", "C03"), "completed a promise that was not pending")
			return
		}
		want := &promise.Promise{State: cp.State, Value: cp.Value, IdempotencyKeyForComplete: cp.IdempotencyKey, CompletedOn: res.Promise.CompletedOn}
		if res.Promise == nil || rowSig(row) != bodySig(res.Promise) || completionSig(want) != completionSig(res.Promise) {
			r.specFail(req, P("C02", "C01", "C20"), fmt.Sprintf("body differs from the completed row %v or from the request", row))
			return
		}
		if res.Promise.CompletedOn == nil || *res.Promise.CompletedOn < req.TCall || *res.Promise.CompletedOn > req.TResp || *res.Promise.CompletedOn >= row.Timeout {
			r.specFail(req, P("C02", "C04"), "completion time outside the request interval or not before the timeout")
		}
		return
	}
	for _, c := range cands {
		row := c.st.Promises[cp.Id]
		if row == nil {
			if res.Status == t_api.StatusPromiseNotFound && res.Promise == nil {
				return
			}
			continue
		}
		for _, tau := range taus {
			p := effFor(req, row, tau)
			if p == nil || p.State == 1 {
				continue // a pending promise before its timeout is completed, not answered otherwise
			}
			var want t_api.StatusCode
			if row.State == 1 {
				// timed out by this very request's clock
				switch {
				case p.State == 2:
					want = t_api.StatusPromiseAlreadyResolved
				case cp.Strict:
					want = t_api.StatusPromiseAlreadyTimedout
				default:
					want = t_api.StatusOK
				}
			} else {
				want = alreadyStatus(p.State)
				if (keyMatch(p.IkComplete, cp.IdempotencyKey) && !(cp.Strict && p.State != int(cp.State))) || (!cp.Strict && p.State == 16) {
					want = t_api.StatusOK
				}
			}
			if res.Status == want && res.Promise != nil && rowSig(p) == bodySig(res.Promise) {
				return
			}
			// a promise timed out lazily by somebody else is reported from the row
		}
	}
	r.specFail(req, P("C02", "C03"), "no state seen by the request explains the reply; states: "+describePromise(cands, cp.Id))
}

// ------------------------------------------------------------- registrations

func (r *ruleState) specRegistration(req *ReqRec, cands []cand, taus []int64) {
	var leaf, cbId string
	var status t_api.StatusCode
	var pbody *promise.Promise
	var cbody interface{ String() string }
	var cbNil bool
	var timeout int64
	var recv string
	props := P("C02", "C05")
	if req.Req.Kind == t_api.CreateCallback {
		q := req.Req.CreateCallback
		res := req.Res.CreateCallback
		leaf, cbId, status, pbody, timeout, recv = q.PromiseId, "__resume:"+q.RootPromiseId+":"+q.PromiseId, res.Status, res.Promise, q.Timeout, string(q.Recv)
		cbNil = res.Callback == nil
		if !cbNil {
			cbody = res.Callback
			if res.Callback.Id != cbId || res.Callback.PromiseId != leaf || res.Callback.Timeout != timeout {
				r.specFail(req, P("C02", "C05", "C20"), "callback body differs from the request")
				return
			}
		}
		if q.PromiseId == q.RootPromiseId {
			if status != t_api.StatusCallbackInvalidPromise || len(req.Txs) != 0 {
				r.specFail(req, props, "self-referential callback must be refused without touching the store")
			}
			return
		}
	} else {
		q := req.Req.CreateSubscription
		res := req.Res.CreateSubscription
		leaf, cbId, status, pbody, timeout, recv = q.PromiseId, "__notify:"+q.PromiseId+":"+q.Id, res.Status, res.Promise, q.Timeout, string(q.Recv)
		cbNil = res.Callback == nil
		if !cbNil {
			cbody = res.Callback
			if res.Callback.Id != cbId || res.Callback.PromiseId != leaf || res.Callback.Timeout != timeout {
				r.specFail(req, P("C02", "C05", "C20"), "subscription body differs from the request")
				return
			}
		}
	}
	_ = cbody
	created := wrote(req, t_aio.CreateCallback)
	if (status == t_api.StatusCreated) != (created != nil) {
		r.specFail(req, props, fmt.Sprintf("status says registered=%v but the request's transactions registered=%v", status == t_api.StatusCreated, created != nil))
		return
	}
	if created != nil {
		if created.Pre == nil {
			return
		}
		row := created.Pre.Promises[leaf]
		cb := created.Post.Callbacks[cbId]
		if row == nil || row.State != 1 || created.Pre.Callbacks[cbId] != nil || cb == nil {
			r.specFail(req, props, "registration stored although the promise was not pending or the registration existed")
			return
		}
		if cbNil || pbody == nil || rowSig(row) != bodySig(pbody) {
			r.specFail(req, props, "reply to a new registration must carry the registration and the pending promise")
			return
		}
		if sderef(cb.Recv) != recv || cb.Timeout != timeout || cb.CreatedOn < req.TCall || cb.CreatedOn > req.TResp {
			r.specFail(req, P("C05", "C20"), fmt.Sprintf("stored registration differs from the request: %s", cb))
		}
		r.s.Probes["registration_created"]++
		return
	}
	for _, c := range cands {
		row := c.st.Promises[leaf]
		if row == nil {
			if status == t_api.StatusPromiseNotFound && pbody == nil && cbNil {
				return
			}
			continue
		}
		if status != t_api.StatusOK || !cbNil || pbody == nil {
			continue
		}
		if row.State != 1 {
			// already completed: the caller need not wait
			if rowSig(row) == bodySig(pbody) {
				r.s.Probes["registration_on_completed"]++
				return
			}
			continue
		}
		// pending: 200 only when the registration (or the task it became) exists
		if rowSig(row) == bodySig(pbody) && (c.st.Callbacks[cbId] != nil) {
			r.s.Probes["registration_repeated"]++
			return
		}
	}
	// name the history: the known read-then-insert race (the promise left pending between the
	// request's read and its guarded insert) is one thing, anything else another
	hist := "unexplained"
	for _, tr := range req.Txs {
		if !tr.Committed || tr.Pre == nil {
			continue
		}
		for _, c := range tr.Tx.Commands {
			if c.Kind == t_aio.CreateCallback {
				if row := tr.Pre.Promises[leaf]; row != nil && row.State != 1 && status == t_api.StatusOK && pbody != nil && pbody.State == promise.Pending {
					hist = "stale pending reply, promise completed before the guarded insert"
				} else if row != nil && row.State == 1 && tr.Pre.Callbacks[cbId] == nil {
					hist = "insert refused although the promise was pending and unregistered"
				}
			}
		}
	}
	r.s.violate("spec."+req.Req.Kind.String(), props, req.Req.Kind.String(), fmt.Sprintf("status=%d %s", req.Status(), hist), fmt.Sprintf("%s: request %s = %s; response %v; no state seen by the request explains the reply (registration %q); states: %s", req.Tag, req.Req.Kind, req.Req, req.Res, cbId, describePromise(cands, leaf)))
}

// ------------------------------------------------------------------ schedules

func schedRowSig(x *tables.Schedule) string {
	return fmt.Sprintf("id=%q desc=%q cron=%q tags={%s} pid=%q pto=%d pph={%s} ppd=%q ptags={%s} last=%s next=%d ik=%s created=%d",
		x.Id, sderef(x.Description), x.Cron, normJSONMap(x.Tags), x.PromiseId, x.PromiseTimeout, normJSONMap(x.PromiseParamHeaders), sderef(x.PromiseParamData), normJSONMap(x.PromiseTags), i64Str(x.LastRunTime), x.NextRunTime, keyStr(x.IdempotencyKey), x.CreatedOn)
}

func schedBodySig(x *schedule.Schedule) string {
	if x == nil {
		return "<nil>"
	}
	return fmt.Sprintf("id=%q desc=%q cron=%q tags={%s} pid=%q pto=%d pph={%s} ppd=%q ptags={%s} last=%s next=%d ik=%s created=%d",
		x.Id, x.Description, x.Cron, normMap(x.Tags), x.PromiseId, x.PromiseTimeout, normMap(x.PromiseParam.Headers), string(x.PromiseParam.Data), normMap(x.PromiseTags), i64Str(x.LastRunTime), x.NextRunTime, keyStr(x.IdempotencyKey), x.CreatedOn)
}

func (r *ruleState) specSchedule(req *ReqRec, cands []cand, taus []int64) {
	props := P("C02", "C10")
	switch req.Req.Kind {
	case t_api.ReadSchedule:
		id := req.Req.ReadSchedule.Id
		res := req.Res.ReadSchedule
		for _, c := range cands {
			row := c.st.Schedules[id]
			if row == nil && res.Status == t_api.StatusScheduleNotFound && res.Schedule == nil {
				return
			}
			if row != nil && res.Status == t_api.StatusOK && schedRowSig(row) == schedBodySig(res.Schedule) {
				return
			}
		}
		r.specFail(req, props, "no state seen by the request explains the reply")
	case t_api.DeleteSchedule:
		id := req.Req.DeleteSchedule.Id
		res := req.Res.DeleteSchedule
		deleted := wrote(req, t_aio.DeleteSchedule)
		if (res.Status == t_api.StatusNoContent) != (deleted != nil) {
			r.specFail(req, props, "status and effect disagree")
			return
		}
		if deleted != nil {
			if deleted.Pre != nil && (deleted.Pre.Schedules[id] == nil || deleted.Post.Schedules[id] != nil) {
				r.specFail(req, props, "deletion did not remove an existing schedule")
			}
			return
		}
		for _, c := range cands {
			if c.st.Schedules[id] == nil && res.Status == t_api.StatusScheduleNotFound {
				return
			}
		}
		r.specFail(req, props, "not-found reply although the schedule existed in every state seen")
	case t_api.CreateSchedule:
		q := req.Req.CreateSchedule
		res := req.Res.CreateSchedule
		created := wrote(req, t_aio.CreateSchedule)
		if (res.Status == t_api.StatusCreated) != (created != nil) {
			r.specFail(req, props, "status and effect disagree")
			return
		}
		if created != nil {
			if created.Post == nil {
				return
			}
			row := created.Post.Schedules[q.Id]
			if created.Pre.Schedules[q.Id] != nil || row == nil || schedRowSig(row) != schedBodySig(res.Schedule) {
				r.specFail(req, P("C02", "C10", "C20"), fmt.Sprintf("body differs from the created row %v", row))
			}
			return
		}
		for _, c := range cands {
			row := c.st.Schedules[q.Id]
			if row == nil {
				continue
			}
			want := t_api.StatusScheduleAlreadyExists
			if keyMatch(row.IdempotencyKey, q.IdempotencyKey) {
				want = t_api.StatusOK
			}
			if res.Status == want && schedRowSig(row) == schedBodySig(res.Schedule) {
				return
			}
		}
		r.specFail(req, props, "no state seen by the request explains the reply")
	}
}

// ---------------------------------------------------------------------- locks

func (r *ruleState) specLock(req *ReqRec, cands []cand, taus []int64) {
	props := P("C02", "C09")
	switch req.Req.Kind {
	case t_api.AcquireLock:
		q := req.Req.AcquireLock
		res := req.Res.AcquireLock
		got := wrote(req, t_aio.AcquireLock)
		if (res.Status == t_api.StatusCreated) != (got != nil) {
			r.specFail(req, props, "status and effect disagree")
			return
		}
		if got != nil {
			if got.Pre == nil {
				return
			}
			pre := got.Pre.Locks[q.ResourceId]
			post := got.Post.Locks[q.ResourceId]
			if pre != nil && pre.ExecutionId != q.ExecutionId {
				r.specFail(req, props, fmt.Sprintf("acquired a lock held by another execution: %s", pre))
				return
			}
			l := res.Lock
			if post == nil || l == nil || l.ResourceId != post.ResourceId || l.ExecutionId != post.ExecutionId || l.ProcessId != post.ProcessId || l.Ttl != post.Ttl || l.ExpiresAt != post.ExpiresAt ||
				l.ExecutionId != q.ExecutionId || l.ProcessId != q.ProcessId || l.Ttl != q.Ttl || l.ExpiresAt-l.Ttl < req.TCall || l.ExpiresAt-l.Ttl > req.TResp {
				r.specFail(req, props, fmt.Sprintf("lock body differs from the stored lock %v or from the request", post))
			}
			return
		}
		if res.Status != t_api.StatusLockAlreadyAcquired {
			r.specFail(req, props, "refusal must be lock-already-acquired")
			return
		}
		for _, c := range cands {
			if l := c.st.Locks[q.ResourceId]; l != nil && l.ExecutionId != q.ExecutionId {
				return
			}
		}
		r.specFail(req, props, "refused although the lock was free or held by the caller in every state seen")
	case t_api.ReleaseLock:
		q := req.Req.ReleaseLock
		res := req.Res.ReleaseLock
		got := wrote(req, t_aio.ReleaseLock)
		if (res.Status == t_api.StatusNoContent) != (got != nil) {
			r.specFail(req, props, "status and effect disagree")
			return
		}
		if got != nil {
			if got.Pre != nil {
				if pre := got.Pre.Locks[q.ResourceId]; pre == nil || pre.ExecutionId != q.ExecutionId || got.Post.Locks[q.ResourceId] != nil {
					r.specFail(req, props, "release removed a lock not held by the caller, or did not remove it")
				}
			}
			return
		}
		if res.Status != t_api.StatusLockNotFound {
			r.specFail(req, props, "refusal must be lock-not-found")
			return
		}
		for _, c := range cands {
			if l := c.st.Locks[q.ResourceId]; l == nil || l.ExecutionId != q.ExecutionId {
				return
			}
		}
		r.specFail(req, props, "not-found although the caller held the lock in every state seen")
	case t_api.HeartbeatLocks:
		q := req.Req.HeartbeatLocks
		res := req.Res.HeartbeatLocks
		if res.Status != t_api.StatusOK {
			r.specFail(req, props, "heartbeat must answer ok")
			return
		}
		for _, c := range cands {
			n := int64(0)
			for _, l := range c.st.Locks {
				if l.ProcessId == q.ProcessId {
					n++
				}
			}
			if n == res.LocksAffected {
				return
			}
		}
		r.specFail(req, props, "affected count matches no state seen")
	}
}

// ---------------------------------------------------------------------- tasks

func taskBodyMatches(b *task.Task, row *tables.Task) bool {
	return b != nil && row != nil && b.Id == row.Id && int64(b.Counter) == row.Counter && b.Timeout == row.Timeout && tables.EqS(b.ProcessId, row.ProcessId) && int(b.State) == row.State
}

func (r *ruleState) specTask(req *ReqRec, cands []cand, taus []int64) {
	props := P("C02", "C07")
	if req.Req.Kind == t_api.ClaimTask {
		// "a claim succeeds with the id and counter a dispatched message names" is C08's as well
		props = P("C02", "C07", "C08")
	}
	switch req.Req.Kind {
	case t_api.ClaimTask:
		q := req.Req.ClaimTask
		res := req.Res.ClaimTask
		var claimed *TxRec
		for _, tr := range req.Txs {
			if tr.Committed && tr.Pre != nil {
				a, b := tr.Pre.Tasks[q.Id], tr.Post.Tasks[q.Id]
				// (a claim that rewrites a row that was already claimed is a claim too: it is judged below)
				if a != nil && b != nil && b.State == 4 && (a.State != 4 || !a.Eq(b)) {
					claimed = tr
				}
			}
		}
		if (res.Status == t_api.StatusCreated) != (claimed != nil) {
			if claimed == nil && wrote(req, t_aio.UpdateTask) != nil {
				return // unattributable
			}
			r.specFail(req, props, fmt.Sprintf("status says claimed=%v but the request's transactions claimed=%v", res.Status == t_api.StatusCreated, claimed != nil))
			return
		}
		if claimed != nil {
			pre, post := claimed.Pre.Tasks[q.Id], claimed.Post.Tasks[q.Id]
			if !(pre.State == 1 || pre.State == 2) || pre.Counter != int64(q.Counter) {
				r.specFail(req, props, fmt.Sprintf("claim succeeded on %s", pre))
				return
			}
			if !taskBodyMatches(res.Task, post) || sderef(post.ProcessId) != q.ProcessId {
				r.specFail(req, props, fmt.Sprintf("task body differs from the claimed row %s", post))
				return
			}
			// payload: promises as of some instant from the claim on
			var m struct{ Type, Root, Leaf string }
			if post.Mesg != nil {
				_ = json.Unmarshal([]byte(*post.Mesg), &m)
			}
			okRoot, okLeaf := false, m.Type != "resume"
			after := false
			for _, c := range cands {
				if c.tr == claimed {
					after = true
				}
				if !after {
					continue
				}
				if row := c.st.Promises[m.Root]; (row == nil && res.RootPromise == nil) || (row != nil && res.RootPromise != nil && rowSig(row) == bodySig(res.RootPromise)) {
					okRoot = true
				}
				if m.Type == "resume" {
					if row := c.st.Promises[m.Leaf]; (row == nil && res.LeafPromise == nil) || (row != nil && res.LeafPromise != nil && rowSig(row) == bodySig(res.LeafPromise)) {
						okLeaf = true
					}
				}
			}
			if !okRoot || !okLeaf {
				r.specFail(req, P("C02", "C07", "C01", "C20"), "claim payload matches no state from the claim on")
			}
			wantRoot := fmt.Sprintf("%s/promises/%s", r.s.Cfg.Url, m.Root)
			if res.RootPromiseHref != wantRoot {
				r.specFail(req, P("C20", "C19"), "root promise link")
			}
			r.s.Probes["claim_succeeded"]++
			return
		}
		for _, c := range cands {
			row := c.st.Tasks[q.Id]
			if row == nil {
				if res.Status == t_api.StatusTaskNotFound {
					return
				}
				continue
			}
			allowed := map[t_api.StatusCode]bool{}
			if row.State == 4 {
				allowed[t_api.StatusTaskAlreadyClaimed] = true
			}
			if row.State == 8 || row.State == 16 {
				allowed[t_api.StatusTaskAlreadyCompleted] = true
			}
			if row.Counter != int64(q.Counter) {
				allowed[t_api.StatusTaskInvalidCounter] = true
			}
			if allowed[res.Status] {
				if res.Status == t_api.StatusTaskInvalidCounter {
					r.s.Probes["claim_stale_counter"]++
				}
				return
			}
		}
		r.specFail(req, props, "refusal matches no state seen (a claimable task with the current counter must be granted)")
	case t_api.CompleteTask:
		q := req.Req.CompleteTask
		res := req.Res.CompleteTask
		var done *TxRec
		for _, tr := range req.Txs {
			if tr.Committed && tr.Pre != nil {
				a, b := tr.Pre.Tasks[q.Id], tr.Post.Tasks[q.Id]
				if a != nil && b != nil && a.State == 4 && b.State == 8 {
					done = tr
				}
			}
		}
		if (res.Status == t_api.StatusCreated) != (done != nil) {
			if done == nil && wrote(req, t_aio.UpdateTask) != nil {
				return
			}
			r.specFail(req, props, "status and effect disagree")
			return
		}
		if done != nil {
			pre := done.Pre.Tasks[q.Id]
			if pre.Counter != int64(q.Counter) {
				r.specFail(req, props, fmt.Sprintf("completion with counter %d succeeded on %s", q.Counter, pre))
			}
			return
		}
		for _, c := range cands {
			row := c.st.Tasks[q.Id]
			if row == nil {
				if res.Status == t_api.StatusTaskNotFound {
					return
				}
				continue
			}
			switch {
			case row.State == 8 || row.State == 16:
				if res.Status == t_api.StatusOK {
					return
				}
			case row.State == 1 || row.State == 2:
				if res.Status == t_api.StatusTaskInvalidState {
					return
				}
			case row.Counter != int64(q.Counter):
				if res.Status == t_api.StatusTaskInvalidCounter {
					return
				}
			}
		}
		r.specFail(req, props, "reply matches no state seen")
	case t_api.HeartbeatTasks:
		q := req.Req.HeartbeatTasks
		res := req.Res.HeartbeatTasks
		if res.Status != t_api.StatusOK {
			r.specFail(req, props, "heartbeat must answer ok")
			return
		}
		for _, c := range cands {
			n := int64(0)
			for _, t := range c.st.Tasks {
				if t.State == 4 && sderef(t.ProcessId) == q.ProcessId && t.ProcessId != nil {
					n++
				}
			}
			if n == res.TasksAffected {
				return
			}
		}
		r.specFail(req, props, "affected count matches no state seen")
	}
}
