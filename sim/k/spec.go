package k

func (r *ruleState) specOnResponse(req *ReqRec) {}
