package k

import (
	"bytes"
	"encoding/json"
	"fmt"
	"sort"
	"strings"

	"github.com/resonatehq/resonate/internal/kernel/t_aio"
	"github.com/resonatehq/resonate/internal/kernel/t_api"
	sapi "github.com/resonatehq/resonate/internal/app/subsystems/api"
	"github.com/resonatehq/resonate/pkg/promise"

	"github.com/resonatehq/resonate/verif/sim/tables"
)

// ruleState holds what the oracles remember between events.
type ruleState struct {
	s *Sim

	// C01 ledger: first observation of every promise id, and the event after
	// which it has been seen completed
	ledger      map[string]*obsPromise
	completedAt map[string]int64

	// leases as defined by the property: claim or last timely heartbeat + ttl
	taskLease map[string]*lease
	lockLease map[string]*lease

	// schedules: deleted ids (no firing after deletion) and creation info
	schedDeleted map[string]int64

	cycles        map[string]*cycleInfo
	travs         map[int]*traversal
	q0roots       map[string]bool
	sweepReads    []*batchRead
	dispatchReads []*batchRead
	rootMoved     map[string]bool
	fastSchedules map[string]bool
	budgetCapped  bool

	quiescing      bool
	quiesceStartEv int64
	lastBeforeDown *tables.Tables
	inFlightAtStop int
}

type lease struct {
	holder  string
	counter int64
	end     int64
}

type obsPromise struct {
	where string
	p     *promise.Promise
}

func newRuleState(s *Sim) *ruleState {
	return &ruleState{
		s:            s,
		ledger:       map[string]*obsPromise{},
		completedAt:  map[string]int64{},
		taskLease:    map[string]*lease{},
		lockLease:    map[string]*lease{},
		schedDeleted: map[string]int64{},
		rootMoved:    map[string]bool{},
	}
}

func P(ps ...string) []string { return ps }

// ------------------------------------------------------------ normalisation

func normMap(m map[string]string) string {
	ks := make([]string, 0, len(m))
	for k := range m {
		ks = append(ks, k)
	}
	sort.Strings(ks)
	var sb strings.Builder
	for _, k := range ks {
		fmt.Fprintf(&sb, "%q=%q,", k, m[k])
	}
	return sb.String()
}

func normJSONMap(raw *string) string {
	m := map[string]string{}
	if raw != nil && *raw != "" {
		if err := json.Unmarshal([]byte(*raw), &m); err != nil {
			return "!" + *raw
		}
	}
	return normMap(m)
}

func sderef(p *string) string {
	if p == nil {
		return ""
	}
	return *p
}

func keyStr[T ~string](k *T) string {
	if k == nil {
		return "<nil>"
	}
	return fmt.Sprintf("%q", string(*k))
}

func i64Str(i *int64) string {
	if i == nil {
		return "<nil>"
	}
	return fmt.Sprint(*i)
}

// creationSig / completionSig of an API promise body
func creationSig(p *promise.Promise) string {
	return fmt.Sprintf("id=%q ph={%s} pd=%q timeout=%d tags={%s} ikc=%s created=%s", p.Id, normMap(p.Param.Headers), string(p.Param.Data), p.Timeout, normMap(p.Tags), keyStr(p.IdempotencyKeyForCreate), i64Str(p.CreatedOn))
}

func completionSig(p *promise.Promise) string {
	return fmt.Sprintf("state=%d vh={%s} vd=%q completed=%s iku=%s", p.State, normMap(p.Value.Headers), string(p.Value.Data), i64Str(p.CompletedOn), keyStr(p.IdempotencyKeyForComplete))
}

// same for a table row
func rowCreationSig(p *tables.Promise) string {
	return fmt.Sprintf("id=%q ph={%s} pd=%q timeout=%d tags={%s} ikc=%s created=%s", p.Id, normJSONMap(p.ParamHeaders), sderef(p.ParamData), p.Timeout, normJSONMap(p.Tags), keyStr(p.IkCreate), i64Str(p.CreatedOn))
}

func rowCompletionSig(p *tables.Promise) string {
	return fmt.Sprintf("state=%d vh={%s} vd=%q completed=%s iku=%s", p.State, normJSONMap(p.ValueHeaders), sderef(p.ValueData), i64Str(p.CompletedOn), keyStr(p.IkComplete))
}

// ------------------------------------------------------------------- ledger

// observe records a promise body that left the server.
func (r *ruleState) observe(where string, p *promise.Promise, invokeEv int64) {
	if p == nil {
		return
	}
	s := r.s
	cs := creationSig(p)
	if first, ok := r.ledger[p.Id]; ok {
		if fs := creationSig(first.p); fs != cs {
			s.violate("C01.ledger.creation", P("C01", "C20"), where, "creation fields differ between observations", fmt.Sprintf("promise %q: %s showed [%s], %s shows [%s]", p.Id, first.where, fs, where, cs))
		}
		if first.p.State != promise.Pending && p.State != promise.Pending {
			if a, b := completionSig(first.p), completionSig(p); a != b {
				s.violate("C01.ledger.completion", P("C01"), where, "completion fields differ between observations", fmt.Sprintf("promise %q: %s showed [%s], %s shows [%s]", p.Id, first.where, a, where, b))
			}
		}
		if first.p.State == promise.Pending && p.State != promise.Pending {
			r.ledger[p.Id] = &obsPromise{where: where, p: p}
		}
	} else {
		r.ledger[p.Id] = &obsPromise{where: where, p: p}
	}
	// against the stored row
	row, ok := s.Last.Promises[p.Id]
	if !ok {
		s.violate("C01.ledger.norow", P("C01", "C06"), where, "body without row", fmt.Sprintf("%s shows promise %q but no such row is committed", where, p.Id))
		return
	}
	if rs := rowCreationSig(row); rs != cs {
		s.violate("C01.ledger.row_creation", P("C01", "C20"), where, "creation fields differ from row", fmt.Sprintf("promise %q: body [%s], row [%s]", p.Id, cs, rs))
	}
	if p.State != promise.Pending {
		if row.State == 1 {
			s.violate("C01.ledger.ahead", P("C01", "C02"), where, "body completed, row pending", fmt.Sprintf("%s shows promise %q as %s while the committed row is pending", where, p.Id, p.State))
		} else if a, b := completionSig(p), rowCompletionSig(row); a != b {
			s.violate("C01.ledger.row_completion", P("C01"), where, "completion fields differ from row", fmt.Sprintf("promise %q: body [%s], row [%s]", p.Id, a, b))
		}
		if _, seen := r.completedAt[p.Id]; !seen {
			r.completedAt[p.Id] = s.Ev
		}
	} else if at, seen := r.completedAt[p.Id]; seen && invokeEv > at {
		s.violate("C01.ledger.regress", P("C01", "C02"), where, "pending after completed", fmt.Sprintf("%s (invoked at ev %d) shows promise %q pending although it was shown completed at ev %d", where, invokeEv, p.Id, at))
	}
}

func (r *ruleState) onResponse(req *ReqRec) {
	s := r.s
	if req.Err != nil {
		var e *t_api.Error
		if !asAPIError(req.Err, &e) {
			s.violate("C12.errtype", P("C12", "C15"), req.Req.Kind.String(), "error is not a kernel error", fmt.Sprintf("%T %v", req.Err, req.Err))
		}
	}
	if req.Res != nil {
		where := fmt.Sprintf("%s response", req.Req.Kind)
		switch req.Res.Kind {
		case t_api.ReadPromise:
			r.observe(where, req.Res.ReadPromise.Promise, req.InvokeEv)
		case t_api.CreatePromise:
			r.observe(where, req.Res.CreatePromise.Promise, req.InvokeEv)
		case t_api.CreatePromiseAndTask:
			r.observe(where, req.Res.CreatePromiseAndTask.Promise, req.InvokeEv)
		case t_api.CompletePromise:
			r.observe(where, req.Res.CompletePromise.Promise, req.InvokeEv)
		case t_api.CreateCallback:
			r.observe(where, req.Res.CreateCallback.Promise, req.InvokeEv)
		case t_api.CreateSubscription:
			r.observe(where, req.Res.CreateSubscription.Promise, req.InvokeEv)
		case t_api.ClaimTask:
			r.observe(where+" root", req.Res.ClaimTask.RootPromise, req.InvokeEv)
			r.observe(where+" leaf", req.Res.ClaimTask.LeafPromise, req.InvokeEv)
		case t_api.SearchPromises:
			for _, p := range req.Res.SearchPromises.Promises {
				r.observe(where, p, req.InvokeEv)
			}
		}
	}
	r.specOnResponse(req)
}

func asAPIError(err error, target **t_api.Error) bool {
	e, ok := err.(*t_api.Error)
	if ok {
		*target = e
	}
	return ok
}

func (r *ruleState) onHelperRefusal(req *ReqRec, aerr *sapi.Error) {
	if aerr.Code != t_api.StatusFieldValidationError {
		r.s.violate("C14.refusal", P("C14", "C13"), req.Spec.Kind, "refusal status", fmt.Sprintf("front-end helper refused with %d", aerr.Code))
	}
}

func (r *ruleState) onMessage(m *MsgRec) {
	// notify bodies carry the completed promise
	if m.Type == "notify" {
		var body struct {
			Type    string           `json:"type"`
			Promise *promise.Promise `json:"promise"`
		}
		if err := json.Unmarshal([]byte(m.Body), &body); err != nil || body.Promise == nil {
			r.s.violate("C19.notify_body", P("C19", "C08"), "notify", "malformed body", m.Body)
			return
		}
		r.observe("notify message", body.Promise, r.s.Ev)
		if t := r.s.Last.Tasks[m.TaskId]; t != nil && body.Promise.Id != t.RootPromiseId {
			r.s.violate("C19.notify_wrong_promise", P("C19", "C08", "C01"), "notify", "notification carries another promise than the one subscribed to", fmt.Sprintf("task %s (promise %q): %s", m.TaskId, t.RootPromiseId, m.Body))
		}
		if body.Promise.State == promise.Pending {
			r.s.violate("C19.notify_pending", P("C19", "C08", "C01"), "notify", "pending promise in notification", m.Body)
		}
	}
	r.dispatchOnMessage(m)
}

// ------------------------------------------------------- store refinement M1

func (r *ruleState) checkStoreRefinement(recs []*TxRec, committed bool, m *tables.Tables, mres [][]*tables.MResult, merr error, after *tables.Tables) {
	s := r.s
	injected := false
	for _, tr := range recs {
		if tr.Err != nil {
			injected = true
		}
	}
	if merr != nil {
		// the model says the batch must fail as a whole
		if committed {
			s.violate("M1.must_fail", P("C16"), "batch", "constraint violation committed", fmt.Sprintf("model: %v, implementation committed", merr))
		}
		s.Probes["batch_constraint_failure"]++
		return
	}
	if !committed {
		// all submissions must carry the error, state unchanged (checked by the caller: after == before)
		for _, tr := range recs {
			if tr.Err == nil {
				s.violate("M1.partial_error", P("C16", "C06"), "batch", "failed batch with a successful submission", fmt.Sprintf("submission %s succeeded in a batch that did not commit", tr.Tag))
			}
		}
		if !injected {
			return
		}
		return
	}
	for i, tr := range recs {
		if tr.Err != nil {
			s.violate("M1.error_after_commit", P("C16"), "batch", "error reported for a committed batch", fmt.Sprintf("%s: %v", tr.Tag, tr.Err))
			continue
		}
		if len(tr.Results) != len(tr.Tx.Commands) {
			s.violate("M1.result_count", P("C16"), "batch", "result count", fmt.Sprintf("%s: %d results for %d commands", tr.Tag, len(tr.Results), len(tr.Tx.Commands)))
			continue
		}
		for j := range tr.Tx.Commands {
			if d := tables.Compare(mres[i][j], tr.Results[j]); d != "" {
				s.violate("M1.result", P("C16"), tr.Tx.Commands[j].Kind.String(), "result differs from reference", fmt.Sprintf("%s command %d: %s", tr.Tag, j, d))
			}
		}
	}
	if d := tables.Diff(m, after, false); len(d) > 0 {
		kinds := map[string]bool{}
		for _, tr := range recs {
			for _, c := range tr.Tx.Commands {
				kinds[c.Kind.String()] = true
			}
		}
		s.violate("M1.state", P("C16"), strings.Join(sortedStrings(kinds), "+"), "state differs from reference", strings.Join(d, "\n"))
	}
}

// --------------------------------------------------------------- table rules

func (r *ruleState) onBatch(before, after *tables.Tables, recs []*TxRec, committed bool) {
	s := r.s
	if !committed {
		return
	}
	// rules that are robust at batch granularity, on actual snapshots
	r.tablesStep(before, after, "batch")
	r.noteCycleReads(before, recs)

	// per-transaction rules: on reference states when the batch refined the
	// model, on the actual snapshots when the batch is a single transaction
	for _, tr := range recs {
		pre, post := tr.Pre, tr.Post
		if pre == nil || post == nil {
			if len(recs) == 1 {
				pre, post = before, after
			} else {
				s.Probes["tx_unattributable"]++
				continue
			}
		}
		r.txStep(tr, pre, post)
	}
}

func (r *ruleState) tablesStep(a, b *tables.Tables, gran string) {
	s := r.s
	// T1, T2
	for _, id := range tables.SortedKeys(a.Promises) {
		p := a.Promises[id]
		q, ok := b.Promises[id]
		if !ok {
			s.violate("T1.vanished", P("C01", "C06"), "promise", "row disappeared", p.String())
			continue
		}
		if !p.CreationEq(q) && (rowCreationSig(p) != rowCreationSig(q) || p.SortId != q.SortId) {
			s.violate("T1.creation_changed", P("C01", "C20"), "promise", "creation fields changed", fmt.Sprintf("%s -> %s", p, q))
		}
		if p.State != 1 {
			if !p.Eq(q) {
				s.violate("T2.completed_changed", P("C01", "C03"), "promise", fmt.Sprintf("state %d->%d", p.State, q.State), fmt.Sprintf("%s -> %s", p, q))
			}
		} else if q.State != 1 && q.State != 2 && q.State != 4 && q.State != 8 && q.State != 16 {
			s.violate("T2.bad_state", P("C01"), "promise", fmt.Sprintf("state %d", q.State), q.String())
		}
	}
	// T5
	for _, id := range tables.SortedKeys(b.Callbacks) {
		c := b.Callbacks[id]
		p, ok := b.Promises[c.PromiseId]
		if !ok || p.State != 1 {
			s.violate("T5.orphan_callback", P("C05", "C06"), "callback", "registration outlives its promise", c.String())
		}
	}
	// tasks never disappear, finished tasks never change, counters never decrease
	for _, id := range tables.SortedKeys(a.Tasks) {
		t := a.Tasks[id]
		u, ok := b.Tasks[id]
		if !ok {
			s.violate("T8.vanished", P("C07", "C06"), "task", "row disappeared", t.String())
			continue
		}
		if u.Counter < t.Counter {
			s.violate("T8.counter_decreased", P("C07"), "task", "counter decreased", fmt.Sprintf("%s -> %s", t, u))
		}
		if (t.State == 8 || t.State == 16) && !t.Eq(u) {
			s.violate("T8.finished_changed", P("C07"), "task", fmt.Sprintf("state %d->%d", t.State, u.State), fmt.Sprintf("%s -> %s", t, u))
		}
	}
}

func valueEmpty(p *tables.Promise) bool {
	return normJSONMap(p.ValueHeaders) == "" && sderef(p.ValueData) == ""
}

func tagOf(p *tables.Promise, key string) (string, bool) {
	m := map[string]string{}
	if p.Tags != nil {
		_ = json.Unmarshal([]byte(*p.Tags), &m)
	}
	v, ok := m[key]
	return v, ok
}

// routeOf decides independently whether a promise routes, and to what.
// Statement C19: a plain string is kept as a logical name, a JSON receiver
// object (type + data) as a physical receiver, anything else does not route.
func (s *Sim) routeOf(p *tables.Promise) (logical *string, physType string, physData string, routes bool) {
	// configured tag sources in their order, then the built-in resonate:invoke source unless a
	// configured source is named default; the first source that yields a receiver wins
	var keys []string
	hasDefault := false
	for _, src := range s.Cfg.Sources {
		if src.Name == "default" {
			hasDefault = true
		}
		if src.Type == "tag" {
			var c struct{ Key string }
			if json.Unmarshal(src.Data, &c) == nil {
				keys = append(keys, c.Key)
			}
		}
	}
	if !hasDefault {
		keys = append(keys, "resonate:invoke")
	}
	for _, key := range keys {
		v, ok := tagOf(p, key)
		if !ok {
			continue
		}
		if !json.Valid([]byte(v)) {
			return &v, "", "", true
		}
		dec := json.NewDecoder(bytes.NewReader([]byte(v)))
		dec.DisallowUnknownFields()
		var obj *struct {
			Type string          `json:"type"`
			Data json.RawMessage `json:"data"`
		}
		if err := dec.Decode(&obj); err != nil || obj == nil || obj.Type == "" {
			continue
		}
		return nil, obj.Type, compactJSON(obj.Data), true
	}
	return nil, "", "", false
}

func compactJSON(b []byte) string {
	if len(b) == 0 {
		return "null"
	}
	var buf bytes.Buffer
	if err := json.Compact(&buf, b); err != nil {
		return string(b)
	}
	return buf.String()
}

func recvMatches(recv *string, logical *string, physType, physData string) bool {
	if recv == nil {
		return false
	}
	if logical != nil {
		var sv string
		if err := json.Unmarshal([]byte(*recv), &sv); err != nil {
			return false
		}
		return sv == *logical
	}
	var obj struct {
		Type string          `json:"type"`
		Data json.RawMessage `json:"data"`
	}
	if err := json.Unmarshal([]byte(*recv), &obj); err != nil {
		return false
	}
	return obj.Type == physType && compactJSON(obj.Data) == physData
}

func (r *ruleState) reqOf(tr *TxRec) *ReqRec { return r.s.reqByTag[tr.Tag] }

// txStep evaluates the transition rules on one transaction pre -> post.
func (r *ruleState) txStep(tr *TxRec, pre, post *tables.Tables) {
	s := r.s
	clock := tr.Clock
	req := r.reqOf(tr)

	r.tablesStep(pre, post, "tx")

	completedNow := map[string]bool{}
	// promises leaving pending: T3, T4, T6
	for _, id := range tables.SortedKeys(pre.Promises) {
		p := pre.Promises[id]
		q := post.Promises[id]
		if q == nil || p.State != 1 || q.State == 1 {
			continue
		}
		completedNow[id] = true
		to, _ := tagOf(q, "resonate:timeout")
		timeoutPath := q.State == 16 || (q.State == 2 && to == "true" && q.CompletedOn != nil && *q.CompletedOn == q.Timeout && valueEmpty(q) && q.IkComplete == nil)
		if q.State == 16 || timeoutPath {
			if clock < q.Timeout {
				s.violate("T3.early_timeout", P("C04"), "promise", "timed out before its deadline", fmt.Sprintf("clock %d < timeout %d: %s (by %s)", clock, q.Timeout, q, tr.Name))
			}
			if !valueEmpty(q) || q.IkComplete != nil || q.CompletedOn == nil || *q.CompletedOn != q.Timeout {
				s.violate("T3.timeout_shape", P("C04"), "promise", "timed-out row has value/key/completion time", q.String())
			}
			if q.State == 16 && to == "true" {
				s.violate("T3.timeout_state", P("C04"), "promise", "resolve-on-timeout promise stored as timed out", q.String())
			}
			if q.State == 2 && to != "true" {
				s.violate("T3.timeout_state", P("C04"), "promise", "promise resolved by timeout without the tag", q.String())
			}
			s.Probes["promise_timed_out"]++
		} else {
			if q.CompletedOn == nil || !(*q.CompletedOn < q.Timeout) {
				s.violate("T4.late_completion", P("C04"), "promise", "caller state installed at or after the deadline", fmt.Sprintf("%s (by %s)", q, tr.Name))
			}
			if q.CompletedOn != nil && *q.CompletedOn > clock {
				s.violate("T4.future_completion", P("C04", "C02"), "promise", "completion time in the future", fmt.Sprintf("clock %d: %s", clock, q))
			}
			if req != nil && req.TCall >= q.Timeout {
				s.violate("T4.completion_after_deadline", P("C04"), "promise", "completion invoked at or after the deadline took effect", fmt.Sprintf("invoked at %d: %s", req.TCall, q))
			}
			s.Probes["promise_completed_by_caller"]++
		}
		// T6: registrations become tasks, outstanding tasks are completed
		for _, cid := range tables.SortedKeys(pre.Callbacks) {
			c := pre.Callbacks[cid]
			if c.PromiseId != id {
				continue
			}
			s.Probes["registration_converted"]++
			t, ok := post.Tasks[cid]
			if _, old := pre.Tasks[cid]; !ok || old {
				s.violate("T6.not_converted", P("C05", "C06", "C08"), "callback", "registration not turned into a task", fmt.Sprintf("%s completing %s", c, q))
				continue
			}
			if !tables.EqS(t.Recv, c.Recv) || !tables.EqS(t.Mesg, c.Mesg) || t.RootPromiseId != c.RootPromiseId || t.Timeout != c.Timeout || t.State != 1 || t.Counter != 1 {
				s.violate("T6.conversion_fields", P("C05", "C20"), "callback", "task does not carry the registration", fmt.Sprintf("%s -> %s", c, t))
			}
			if _, still := post.Callbacks[cid]; still {
				s.violate("T6.not_removed", P("C05", "C06"), "callback", "registration kept after completion", c.String())
			}
		}
		for _, tid := range tables.SortedKeys(pre.Tasks) {
			t := pre.Tasks[tid]
			if t.RootPromiseId != id || !(t.State == 1 || t.State == 2 || t.State == 4) {
				continue
			}
			u := post.Tasks[tid]
			if u == nil || (u.State != 8 && u.State != 16) {
				s.violate("T6.task_outstanding", P("C08", "C06"), "task", "task of a completed promise still active", fmt.Sprintf("%v after %s", u, q))
			}
			s.Probes["task_completed_with_promise"]++
		}
	}

	// T7: birth of promises and invocation tasks
	for _, id := range tables.SortedKeys(post.Promises) {
		if _, old := pre.Promises[id]; old {
			continue
		}
		q := post.Promises[id]
		if q.State != 1 {
			s.violate("T7.born_completed", P("C01"), "promise", "created in a non-pending state", q.String())
		}
		logical, pt, pd, routes := s.routeOf(q)
		tid := "__invoke:" + id
		t := post.Tasks[tid]
		_, told := pre.Tasks[tid]
		if routes {
			s.Probes["routed_promise_created"]++
			if t == nil || told {
				s.violate("T7.routed_without_task", P("C08", "C06"), "promise", "routed promise created without its task", q.String())
			} else {
				if !recvMatches(t.Recv, logical, pt, pd) {
					s.violate("T7.task_recv", P("C19", "C08"), "task", "invocation task not addressed as the routing tag says", fmt.Sprintf("%s for %s", t, q))
				}
				if t.RootPromiseId != id || t.Timeout != q.Timeout || t.Counter != 1 || !(t.State == 1 || t.State == 4) {
					s.violate("T7.task_fields", P("C08"), "task", "invocation task fields", fmt.Sprintf("%s for %s", t, q))
				}
			}
		} else if t != nil && !told {
			s.violate("T7.unrouted_with_task", P("C08", "C19"), "promise", "unrouted promise created with a task", fmt.Sprintf("%s / %s", q, t))
		}
	}
	for _, tid := range tables.SortedKeys(post.Tasks) {
		if _, old := pre.Tasks[tid]; old {
			continue
		}
		t := post.Tasks[tid]
		if strings.HasPrefix(tid, "__invoke:") {
			pid := strings.TrimPrefix(tid, "__invoke:")
			if _, pnew := post.Promises[pid]; !pnew || pre.Promises[pid] != nil {
				s.violate("T7.task_without_promise", P("C08", "C06", "C03"), "task", "invocation task created without its promise", t.String())
			}
		} else if _, wasCb := pre.Callbacks[tid]; !wasCb {
			s.violate("T7.task_from_nowhere", P("C08", "C05"), "task", "task created without a registration", t.String())
		}
	}

	// T8, T9, T16: task transitions
	for _, tid := range tables.SortedKeys(pre.Tasks) {
		t := pre.Tasks[tid]
		u := post.Tasks[tid]
		if u == nil {
			continue
		}
		active := func(st int) bool { return st == 1 || st == 2 || st == 4 }
		if t.Eq(u) {
			continue
		}
		if t.State == 1 && u.State != 1 && r.quiescing {
			r.rootMoved[t.RootPromiseId] = true
		}
		reclaimed := (t.State == 2 || t.State == 4) && u.State == 1
		if reclaimed && u.Counter != t.Counter+1 {
			s.violate("T8.reclaim_counter", P("C07"), "task", "reclaimed without counter+1", fmt.Sprintf("%s -> %s", t, u))
		}
		if !reclaimed && u.Counter != t.Counter {
			s.violate("T8.counter_changed", P("C07"), "task", "counter changed without reclaim", fmt.Sprintf("%s -> %s", t, u))
		}
		if reclaimed {
			s.Probes["task_reclaimed"]++
		}
		// T9: a holder loses its task
		if t.State == 4 && !(u.State == 4 && u.Counter == t.Counter && tables.EqS(u.ProcessId, t.ProcessId)) {
			end := t.ExpiresAt
			if l := r.taskLease[tid]; l != nil && l.counter == t.Counter {
				end = l.end
			}
			legal := clock >= end || clock >= t.Timeout || completedNow[t.RootPromiseId]
			if !legal && u.State == 8 && req != nil && req.Req.Kind == t_api.CompleteTask && req.Req.CompleteTask.Id == tid && int64(req.Req.CompleteTask.Counter) == t.Counter {
				legal = true
			}
			if !legal {
				s.violate("T9.lease_broken", P("C07", "C02"), "task", "task taken from its holder before the lease ended", fmt.Sprintf("clock %d, lease end %d, timeout %d: %s -> %s (by %s)", clock, end, t.Timeout, t, u, tr.Name))
			}
		}
		// a claimed task is claimed again (same counter: T8 has dealt with a changed one) or changes hands
		if t.State == 4 && u.State == 4 && ((req != nil && req.Req.Kind == t_api.ClaimTask && req.Req.ClaimTask.Id == tid) || !tables.EqS(u.ProcessId, t.ProcessId)) {
			s.violate("T9.claimed_twice", P("C07", "C02"), "task", "a claimed task was claimed again without a new counter", fmt.Sprintf("clock %d: %s -> %s (by %s)", clock, t, u, tr.Name))
		}
		// claims
		if u.State == 4 && t.State != 4 {
			if !(t.State == 1 || t.State == 2) {
				s.violate("T9.claim_from", P("C07"), "task", "claimed from a non-claimable state", fmt.Sprintf("%s -> %s", t, u))
			}
			if req == nil || req.Req.Kind != t_api.ClaimTask || int64(req.Req.ClaimTask.Counter) != t.Counter {
				s.violate("T9.claim_counter", P("C07"), "task", "claim without the current counter", fmt.Sprintf("%s -> %s by %s", t, u, tr.Name))
			} else {
				tau := u.ExpiresAt - u.Ttl
				if tau < req.TCall || tau > clock || int64(req.Req.ClaimTask.Ttl) != u.Ttl || sderef(u.ProcessId) != req.Req.ClaimTask.ProcessId {
					s.violate("T9.claim_lease", P("C07"), "task", "claim lease is not clock + ttl of the claimant", fmt.Sprintf("call %d clock %d: %s", req.TCall, clock, u))
				}
			}
			r.taskLease[tid] = &lease{holder: sderef(u.ProcessId), counter: u.Counter, end: u.ExpiresAt}
			s.Probes["task_claimed"]++
		}
		// T16: finishing
		if active(t.State) && u.State == 8 {
			ok := completedNow[t.RootPromiseId]
			if !ok && t.State == 4 && req != nil && req.Req.Kind == t_api.CompleteTask && req.Req.CompleteTask.Id == tid && int64(req.Req.CompleteTask.Counter) == t.Counter {
				ok = true
			}
			if !ok && t.State == 1 && tr.Name == "EnqueueTasks" && mesgType(t) == "notify" && r.attempted(tr.Tag, tid, t.Counter) {
				ok = true
				s.Probes["notify_finished_after_attempt"]++
			}
			if !ok {
				// name the history: the transaction tried to complete the task's root promise and lost
				// the race (its conditional update matched no row), yet its CompleteTasks ran
				how := ""
				for i, c := range tr.Tx.Commands {
					if c.Kind == t_aio.UpdatePromise && c.UpdatePromise.Id == t.RootPromiseId && i < len(tr.Results) && tr.Results[i] != nil && tr.Results[i].UpdatePromise.RowsAffected == 0 {
						how = " after losing the race for its root"
					}
				}
				s.violate("T16.finished_illegally", P("C05", "C08", "C07"), "task", fmt.Sprintf("%s task finished by %s%s", mesgType(t), tr.Name, how), fmt.Sprintf("state %d: %s -> %s", t.State, t, u))
			}
		}
		if active(t.State) && u.State == 16 && clock < t.Timeout {
			s.violate("T16.early_task_timeout", P("C07", "C08"), "task", "task timed out before its timeout", fmt.Sprintf("clock %d: %s", clock, u))
		}
		// T11: enqueued only after a successful hand-off
		if u.State == 2 && t.State != 2 {
			if t.State != 1 || tr.Name != "EnqueueTasks" || !r.delivered(tr.Tag, tid, t.Counter) {
				s.violate("T11.enqueued_without_handoff", P("C08"), "task", "marked enqueued without a successful hand-off", fmt.Sprintf("%s -> %s by %s", t, u, tr.Tag))
			}
			s.Probes["task_enqueued"]++
		}
		if t.State == 1 && (u.State == 1 || u.State == 2) && tr.Name == "EnqueueTasks" && mesgType(t) == "notify" && (u.State == 2 || u.Attempt != t.Attempt) && r.attempted(tr.Tag, tid, t.Counter) {
			s.violate("T11.notify_not_finished", P("C08"), "task", "notification not finished after a recorded hand-off attempt", fmt.Sprintf("%s -> %s by %s", t, u, tr.Tag))
		}
		if t.State == 1 && u.State == 1 && u.Attempt == t.Attempt+1 {
			s.Probes["handoff_retry_recorded"]++
			if r.quiescing {
				r.rootMoved[t.RootPromiseId] = true
			}
		}
	}

	// T10: heartbeats
	for _, c := range tr.Tx.Commands {
		switch c.Kind {
		case t_aio.HeartbeatTasks:
			r.heartbeatTasksRule(tr, req, c.HeartbeatTasks, pre, post)
		case t_aio.HeartbeatLocks:
			r.heartbeatLocksRule(tr, req, c.HeartbeatLocks, pre, post)
		}
	}

	r.lockRules(tr, req, pre, post)
	r.scheduleRules(tr, req, pre, post)
}

func mesgType(t *tables.Task) string {
	var m struct {
		Type string `json:"type"`
	}
	if t.Mesg != nil {
		_ = json.Unmarshal([]byte(*t.Mesg), &m)
	}
	return m.Type
}

func (r *ruleState) attempted(cycle, taskId string, counter int64) bool {
	for i := len(r.s.Sends) - 1; i >= 0; i-- {
		x := r.s.Sends[i]
		if x.Cycle == cycle && x.TaskId == taskId && int64(x.Counter) == counter && !x.Pre {
			return true
		}
	}
	return false
}

func (r *ruleState) delivered(cycle, taskId string, counter int64) bool {
	for i := len(r.s.Sends) - 1; i >= 0; i-- {
		x := r.s.Sends[i]
		if x.Cycle == cycle && x.TaskId == taskId && int64(x.Counter) == counter && x.Success && !x.Post && !x.Pre {
			return true
		}
	}
	return false
}

func (r *ruleState) heartbeatTasksRule(tr *TxRec, req *ReqRec, cmd *t_aio.HeartbeatTasksCommand, pre, post *tables.Tables) {
	s := r.s
	if len(tr.Tx.Commands) != 1 {
		return
	}
	if req != nil && (cmd.Time < req.TCall || cmd.Time > tr.Clock) {
		s.violate("T10.heartbeat_clock", P("C07"), "heartbeat", "heartbeat time outside the request interval", fmt.Sprintf("time %d not in [%d,%d]", cmd.Time, req.TCall, tr.Clock))
	}
	for _, id := range tables.SortedKeys(pre.Tasks) {
		t := pre.Tasks[id]
		u := post.Tasks[id]
		if u == nil {
			continue
		}
		mine := t.State == 4 && sderef(t.ProcessId) == cmd.ProcessId && t.ProcessId != nil
		want := *t
		if mine {
			want.ExpiresAt = tables.AddSat(cmd.Time, t.Ttl)
		}
		if !want.Eq(u) {
			s.violate("T10.heartbeat_effect", P("C07"), "heartbeat", "heartbeat changed something other than the lease of the caller's claimed tasks", fmt.Sprintf("%s -> %s, expected %s", t, u, &want))
		}
		if mine {
			l := r.taskLease[id]
			if l == nil || l.counter != t.Counter {
				l = &lease{holder: cmd.ProcessId, counter: t.Counter, end: t.ExpiresAt}
				r.taskLease[id] = l
			}
			if cmd.Time < l.end {
				l.end = cmd.Time + t.Ttl
				s.Probes["timely_task_heartbeat"]++
			} else {
				s.Probes["late_task_heartbeat"]++
			}
		}
	}
}

func (r *ruleState) heartbeatLocksRule(tr *TxRec, req *ReqRec, cmd *t_aio.HeartbeatLocksCommand, pre, post *tables.Tables) {
	s := r.s
	if len(tr.Tx.Commands) != 1 {
		return
	}
	if req != nil && (cmd.Time < req.TCall || cmd.Time > tr.Clock) {
		s.violate("T10.heartbeat_clock", P("C09"), "heartbeat", "heartbeat time outside the request interval", fmt.Sprintf("time %d not in [%d,%d]", cmd.Time, req.TCall, tr.Clock))
	}
	if len(post.Locks) != len(pre.Locks) {
		s.violate("T10.lock_heartbeat_rows", P("C09"), "heartbeat", "heartbeat created or removed a lock", fmt.Sprintf("%d -> %d rows", len(pre.Locks), len(post.Locks)))
	}
	for _, id := range tables.SortedKeys(pre.Locks) {
		l := pre.Locks[id]
		m := post.Locks[id]
		if m == nil {
			continue
		}
		want := *l
		if l.ProcessId == cmd.ProcessId {
			want.ExpiresAt = tables.AddSat(cmd.Time, l.Ttl)
		}
		if !want.Eq(m) {
			s.violate("T10.lock_heartbeat_effect", P("C09"), "heartbeat", "heartbeat changed something other than the lease of the caller's locks", fmt.Sprintf("%s -> %s, expected %s", l, m, &want))
		}
		if l.ProcessId == cmd.ProcessId {
			ls := r.lockLease[id]
			if ls == nil || ls.holder != l.ExecutionId {
				ls = &lease{holder: l.ExecutionId, end: l.ExpiresAt}
				r.lockLease[id] = ls
			}
			if cmd.Time < ls.end {
				ls.end = cmd.Time + l.Ttl
				s.Probes["timely_lock_heartbeat"]++
			} else {
				s.Probes["late_lock_heartbeat"]++
			}
		}
	}
}

func (r *ruleState) lockRules(tr *TxRec, req *ReqRec, pre, post *tables.Tables) {
	s := r.s
	clock := tr.Clock
	for _, id := range tables.SortedKeys(pre.Locks) {
		l := pre.Locks[id]
		m := post.Locks[id]
		if m != nil && m.ExecutionId == l.ExecutionId {
			if !m.Eq(l) {
				// re-acquire or heartbeat
				if req != nil && req.Req.Kind == t_api.AcquireLock {
					a := req.Req.AcquireLock
					tau := m.ExpiresAt - m.Ttl
					if a.ExecutionId != l.ExecutionId || m.Ttl != a.Ttl || m.ProcessId != a.ProcessId || tau < req.TCall || tau > clock {
						s.violate("T12.reacquire", P("C09"), "lock", "re-acquire wrote something other than clock + ttl of the holder", fmt.Sprintf("%s -> %s", l, m))
					}
					r.lockLease[id] = &lease{holder: m.ExecutionId, end: m.ExpiresAt}
					s.Probes["lock_reacquired"]++
				} else if !(req != nil && req.Req.Kind == t_api.HeartbeatLocks) {
					s.violate("T12.changed", P("C09"), "lock", "lock row changed by something that is neither acquire nor heartbeat", fmt.Sprintf("%s -> %s by %s", l, m, tr.Name))
				}
			}
			continue
		}
		// the holder lost the lock (deleted or transferred)
		end := l.ExpiresAt
		if ls := r.lockLease[id]; ls != nil && ls.holder == l.ExecutionId {
			end = ls.end
		}
		released := req != nil && req.Req.Kind == t_api.ReleaseLock && req.Req.ReleaseLock.ResourceId == id && req.Req.ReleaseLock.ExecutionId == l.ExecutionId
		if released {
			s.Probes["lock_released"]++
		} else if clock >= end {
			s.Probes["lock_expired"]++
		} else {
			s.violate("T12.lock_lost", P("C09", "C02"), "lock", "lock taken from its holder before the lease ended", fmt.Sprintf("clock %d lease end %d: %s -> %v (by %s)", clock, end, l, m, tr.Name))
		}
		if m == nil {
			delete(r.lockLease, id)
		}
	}
	for _, id := range tables.SortedKeys(post.Locks) {
		m := post.Locks[id]
		l := pre.Locks[id]
		if l != nil && l.ExecutionId == m.ExecutionId {
			continue
		}
		// new holder
		if req == nil || req.Req.Kind != t_api.AcquireLock || req.Req.AcquireLock.ResourceId != id || req.Req.AcquireLock.ExecutionId != m.ExecutionId {
			s.violate("T12.holder_from_nowhere", P("C09"), "lock", "lock acquired by something other than an acquire of that execution", fmt.Sprintf("%v -> %s by %s", l, m, tr.Name))
			continue
		}
		a := req.Req.AcquireLock
		tau := m.ExpiresAt - m.Ttl
		if m.Ttl != a.Ttl || m.ProcessId != a.ProcessId || tau < req.TCall || tau > clock {
			s.violate("T12.acquire_lease", P("C09"), "lock", "acquire wrote something other than clock + ttl", fmt.Sprintf("call %d clock %d: %s", req.TCall, clock, m))
		}
		r.lockLease[id] = &lease{holder: m.ExecutionId, end: m.ExpiresAt}
		s.Probes["lock_acquired"]++
	}
}

// -------------------------------------------------------------------- crash

func (r *ruleState) onRestart(prev, snap *tables.Tables) {
	s := r.s
	// T14: only committed state survives, and all of it
	if d := tables.Diff(prev, snap, false); len(d) > 0 {
		// the property that owns the table is violated too (a lock that vanishes at a restart is
		// taken from its holder, a schedule that vanishes stops firing, ...)
		props := []string{"C06"}
		for _, own := range [][2]string{{"locks[", "C09"}, {"schedules[", "C10"}, {"tasks[", "C07"}, {"callbacks[", "C05"}, {"promises[", "C01"}} {
			for _, line := range d {
				if strings.HasPrefix(line, own[0]) {
					props = append(props, own[1])
					break
				}
			}
		}
		s.violate("T14.restart_diff", props, "restart", "state after restart differs from the last committed state", strings.Join(d, "\n"))
	}
	s.Probes["restart_snapshot_compared"]++
}

func (r *ruleState) onCrash() {}

func (r *ruleState) onShutdownRequested() {}

func (r *ruleState) onStopped(before *tables.Tables) {
	s := r.s
	// graceful stop keeps the data: reopen the file read-only
	if _, err := osStat(s.Path); err != nil {
		s.violate("C06.stop_lost_file", P("C06"), "shutdown", "database file gone after graceful stop", err.Error())
		return
	}
	snap, err := tables.Load(s.obs)
	if err != nil {
		s.violate("C06.stop_unreadable", P("C06"), "shutdown", "database unreadable after graceful stop", err.Error())
		return
	}
	if d := tables.Diff(before, snap, false); len(d) > 0 {
		s.violate("C06.stop_diff", P("C06"), "shutdown", "state after graceful stop differs", strings.Join(d, "\n"))
	}
	s.Probes["graceful_stop_compared"]++
	// every accepted request was answered before the stop
	for _, q := range s.Reqs {
		if q.Boot == s.boot && q.Responses == 0 {
			s.violate("C12.unanswered_at_stop", P("C12"), q.Req.Kind.String(), "accepted request not answered before the server stopped", q.Tag)
		}
	}
}
