package k

import (
	"math/rand"
	"database/sql"
	"encoding/json"
	"errors"
	"fmt"
	"net/http"
	"os"
	"path/filepath"
	"runtime/debug"
	"sort"
	"strings"
	"time"

	"github.com/prometheus/client_golang/prometheus"
	_ "github.com/mattn/go-sqlite3"

	"github.com/resonatehq/resonate/internal/aio"
	"github.com/resonatehq/resonate/internal/api"
	phttp "github.com/resonatehq/resonate/internal/app/plugins/http"
	ppoll "github.com/resonatehq/resonate/internal/app/plugins/poll"
	"github.com/resonatehq/resonate/internal/app/subsystems/aio/router"
	"github.com/resonatehq/resonate/internal/app/subsystems/aio/sender"
	"github.com/resonatehq/resonate/internal/app/subsystems/aio/store/sqlite"
	"github.com/resonatehq/resonate/internal/kernel/bus"
	"github.com/resonatehq/resonate/internal/kernel/system"
	"github.com/resonatehq/resonate/internal/kernel/t_aio"
	"github.com/resonatehq/resonate/internal/kernel/t_api"
	"github.com/resonatehq/resonate/internal/metrics"

	"github.com/resonatehq/resonate/verif/sim/faultdb"
	"github.com/resonatehq/resonate/verif/sim/tables"
)

type aioSQE = bus.SQE[t_aio.Submission, t_aio.Completion]
type aioCQE = bus.CQE[t_aio.Submission, t_aio.Completion]

// Violation is one broken rule.
type Violation struct {
	Rule   string   `json:"rule"`
	Props  []string `json:"props"`
	Kind   string   `json:"kind"`
	Cond   string   `json:"cond"`
	Detail string   `json:"detail"`
	Ev     int64    `json:"ev"`
	Step   int      `json:"step"`
	Frame  string   `json:"frame,omitempty"`
}

func (v *Violation) Fingerprint() string {
	return v.Rule + "|" + v.Kind + "|" + v.Cond + "|" + v.Frame
}

func (v *Violation) Has(prop string) bool {
	for _, p := range v.Props {
		if p == prop {
			return true
		}
	}
	return false
}

// TxRec is one store submission (one t_aio.Transaction) as executed.
type TxRec struct {
	Tag       string // Tags["id"] of the submission: request id or background instance
	Name      string // Tags["name"]
	Tx        *t_aio.Transaction
	Results   []*t_aio.Result
	Err       error
	PreFail   bool
	PostFail  bool
	Committed bool
	Wrote     bool
	Batch     int
	Ev        int64
	Clock     int64
	Pre, Post *tables.Tables // model states around this transaction (nil when the model is out of sync)
}

// ReqRec is one API request with everything observed about it.
type ReqRec struct {
	Idx       int
	Client    int
	Tag       string
	Spec      *ReqSpec
	Req       *t_api.Request
	Step      int
	InvokeEv  int64
	TCall     int64
	RespEv    int64
	TResp     int64
	Res       *t_api.Response
	Err       error
	Responses int
	Lost      bool // in flight at a crash
	Front     *frontCall
	FrontOnly bool // answered by the front end without reaching the kernel
	Txs       []*TxRec
	Boot      int
}

func (r *ReqRec) Status() int {
	if r.Responses == 0 || r.FrontOnly || (r.Res == nil && r.Err == nil) {
		return 0
	}
	if r.Err != nil {
		var e *t_api.Error
		if errors.As(r.Err, &e) {
			return int(e.Code())
		}
		return -1
	}
	return int(r.Res.Status())
}

// MsgRec is one message handed to a simulated transport.
type MsgRec struct {
	Ev      int64
	Clock   int64
	Cycle   string // background instance tag of the dispatch cycle
	Type    string
	Plugin  string
	Data    string
	Body    string
	Outcome string
	TaskId  string
	Counter int
	// http transport: the request the production worker handed to the (simulated) network
	Reached     bool
	SentURL     string
	SentHeaders map[string]string
	// the body as the transport holds it (same backing array as the sender handed over): a real
	// transport keeps it queued until a listener takes it, so it must not change afterwards
	bodyRef []byte
	bodyBad bool
}

// SendRec is one sender submission as seen by the shell.
type SendRec struct {
	Ev      int64
	Cycle   string
	TaskId  string
	Counter int
	Mesg    string
	Success bool
	Err     string
	Post    bool
	Pre     bool
}

type shell struct {
	sim  *Sim
	kind t_aio.Kind
	// flushed: the kernel called Flush during the current tick
	flushed bool
	cap     int
	q      []*aioSQE
	parked []*aioCQE
}

func (s *shell) String() string           { return "sim:" + s.kind.String() }
func (s *shell) Kind() t_aio.Kind         { return s.kind }
func (s *shell) Start(chan<- error) error { return nil }
func (s *shell) Stop() error              { return nil }
func (s *shell) Flush(int64)              { s.flushed = true }
func (s *shell) Enqueue(sqe *aioSQE) bool {
	limit := s.cap
	if s.sim.fair {
		// a worker that is not stalled keeps collecting while the kernel
		// dispatches: an idle worker holds up to a batch (store) or one
		// submission (router, sender) outside the channel, and runs when its
		// batch is full (it still blocks on a full completion queue)
		if len(s.parked) == 0 || s.kind == t_aio.Sender {
			if s.kind == t_aio.Store {
				limit += s.sim.Cfg.StoreBatch
			} else {
				limit++
			}
		}
		if len(s.q) >= limit {
			s.sim.drainInTick(s)
		}
	}
	if len(s.q) >= limit {
		s.sim.Stats["aio.queue_full."+s.kind.String()]++
		s.sim.logf("QUEUE FULL %s refuses %s", s.kind, sqe.Submission.Tags["id"])
		return false
	}
	s.q = append(s.q, sqe)
	return true
}

// parkAIO is the aio handed to the production sender worker: completions it
// enqueues are parked in the sender shell until the scheduler delivers them.
type parkAIO struct {
	aio.AIO
	sim *Sim
}

func (p *parkAIO) EnqueueCQE(cqe *aioCQE) {
	sh := p.sim.shells[t_aio.Sender]
	sh.parked = append(sh.parked, cqe)
	p.sim.curSender = append(p.sim.curSender, cqe)
}

// simPlugin is a simulated transport.
type simPlugin struct {
	typ  string
	sim  *Sim
	poll *ppoll.Detached
	// one production http worker per server life, as in production (state it keeps between
	// messages is part of what is simulated)
	hw *phttp.HttpWorker
	rt *simRoundTripper
}

func (p *simPlugin) String() string           { return "sim:" + p.typ }
func (p *simPlugin) Type() string             { return p.typ }
func (p *simPlugin) Start(chan<- error) error { return nil }
func (p *simPlugin) Stop() error              { return nil }
func (p *simPlugin) Enqueue(m *aio.Message) bool {
	s := p.sim
	out := s.curOutcome
	s.checkHeldBodies()
	rec := &MsgRec{Ev: s.nextEv(), Clock: s.Now, Cycle: s.curCycle, Type: string(m.Type), Plugin: p.typ, Data: string(m.Data), Body: string(m.Body), Outcome: out, TaskId: s.curTaskId, Counter: s.curCounter, bodyRef: m.Body}
	s.Msgs = append(s.Msgs, rec)
	if out == "full" {
		s.Stats["handoff."+out]++
		s.onMessage(rec)
		return false
	}
	// the transport's own handling of the address is production code: the http worker's Process
	// runs over a simulated network, the poll worker's Process over an empty registry (it gets as
	// far as looking the listener up). An address the transport cannot use is an undeliverable
	// hand-off whatever the schedule says.
	ok, err, reached := p.deliver(m, out)
	if !reached {
		rec.Outcome = "undeliverable"
	}
	rec.Reached = reached
	if p.typ == "http" && reached {
		rec.SentURL, rec.SentHeaders = p.rt.url, p.rt.headers
	}
	s.Stats["handoff."+rec.Outcome]++
	s.onMessage(rec)
	m.Done(ok, err)
	return true
}

// checkHeldBodies verifies that the bodies handed to the transports earlier still hold the
// bytes they held at the hand-off (the last few dozen messages of this server life).
func (s *Sim) checkHeldBodies() {
	for i := len(s.Msgs) - 1; i >= 0 && i >= len(s.Msgs)-40; i-- {
		m := s.Msgs[i]
		if m.bodyRef == nil || m.bodyBad {
			continue
		}
		if string(m.bodyRef) != m.Body {
			m.bodyBad = true
			s.violate("C19.body_changed_after_handoff", P("C19", "C18", "C08", "C20"), "dispatch", "the bytes of a message handed to a transport changed afterwards", fmt.Sprintf("task %s: handed over %s, the transport now holds %s", m.TaskId, m.Body, string(m.bodyRef)))
		}
	}
}

type simRoundTripper struct {
	outcome string
	reached bool
	url     string
	headers map[string]string
}

func (t *simRoundTripper) RoundTrip(req *http.Request) (*http.Response, error) {
	t.reached = true
	t.url = req.URL.String()
	t.headers = map[string]string{}
	for k, v := range req.Header {
		t.headers[k] = strings.Join(v, ",")
	}
	switch t.outcome {
	case "error":
		return nil, errors.New("simulated transport error")
	case "false":
		return &http.Response{StatusCode: 500, Body: http.NoBody, Header: http.Header{}, Request: req}, nil
	}
	return &http.Response{StatusCode: 200, Body: http.NoBody, Header: http.Header{}, Request: req}, nil
}

func (p *simPlugin) deliver(m *aio.Message, out string) (ok bool, err error, reached bool) {
	switch p.typ {
	case "http":
		if p.hw == nil {
			p.rt = &simRoundTripper{}
			p.hw = phttp.NewWorker(&http.Client{Transport: p.rt})
		}
		p.rt.outcome, p.rt.reached, p.rt.url, p.rt.headers = out, false, "", nil
		ok, err = p.hw.Process(m.Data, m.Body)
		return ok, err, p.rt.reached
	case "poll":
		if p.poll == nil {
			p.poll = ppoll.NewDetached(p.sim.metrics, &ppoll.Config{Size: 1, MaxConnections: 1})
		}
		var perr error
		answered := false
		p.poll.Worker.Process(&aio.Message{Type: m.Type, Data: m.Data, Body: m.Body, Done: func(ok bool, err error) { answered, perr = true, err }})
		if !answered {
			return false, errors.New("the poll worker did not answer"), false
		}
		if perr == nil || !strings.HasPrefix(perr.Error(), "no connection found") {
			// the address itself was refused (with an empty registry a usable address ends in "no connection found")
			return false, perr, false
		}
	}
	switch out {
	case "false":
		return false, nil, true
	case "error":
		return false, errors.New("simulated transport error"), true
	}
	return true, nil, true
}

// Sim is one simulated server life (across crashes and restarts) plus its
// observers and oracles.
type Sim struct {
	Cfg  Config
	Dir  string
	Path string
	Now  int64
	Ev   int64

	ctl *faultdb.Control
	db  *sql.DB
	obs *sql.DB

	metrics *metrics.Metrics
	api     api.API
	aio     aio.AIO
	sys     *system.System
	store   *sqlite.SqliteStore
	router  *router.Router
	sender  *sender.Sender
	shells  map[t_aio.Kind]*shell
	inCQ    int
	alive   bool
	boot    int
	downAt  int64

	shutdownRequested bool
	stopped           bool

	// current work step context
	curOutcome string
	// hand-off outcomes used, cyclically, by sender work inside a settle step that carries them
	autoOutcomes []string
	autoIdx      int
	autoFaults   *rand.Rand
	image        string // crash image taken at a fault point, used by the crash that follows
	lives        int
	innerDt      int64 // clock advance of the ticks inside an automatic round
	firstDt      int64 // clock advance of the first round of a settle step (0: one signal timeout)
	curCycle   string
	curTaskId  string
	curCounter int
	curSender  []*aioCQE
	curBatch   []*TxRec
	crashNow   bool
	fronts     *fronts
	curCall    *frontCall
	fair       bool // convergence phase: workers run concurrently with the kernel, no faults

	// observation
	Last      *tables.Tables // latest committed snapshot
	Model     *tables.Tables // reference model state (== Last when in sync)
	ModelSync bool
	Reqs      []*ReqRec
	reqByTag  map[string]*ReqRec
	Txs       []*TxRec
	Msgs      []*MsgRec
	Sends     []*SendRec
	Batches   int
	Ticks     []int64
	cursors   map[int]*t_api.Request
	stepNo    int
	commitSig []string
	commitNo  int

	Violations []*Violation
	Stats      map[string]int
	Probes     map[string]int
	StateFp    map[string]bool

	rules *ruleState
	opts  Options
}

// Options select oracles and limits.
type Options struct {
	StopOnViolation bool
	Verbose         bool
	Log             func(string)
}

func scratchRoot() string {
	if st, err := os.Stat("/dev/shm"); err == nil && st.IsDir() {
		d := "/dev/shm/verif-sim"
		if os.MkdirAll(d, 0o755) == nil {
			return d
		}
	}
	d := filepath.Join(os.TempDir(), "verif-sim")
	_ = os.MkdirAll(d, 0o755)
	return d
}

// NewSim creates the database directory and boots the first server life.
func NewSim(cfg Config, opts Options) (*Sim, error) {
	dir, err := os.MkdirTemp(scratchRoot(), "run-")
	if err != nil {
		return nil, err
	}
	if err := os.MkdirAll(filepath.Join(dir, "life0"), 0o755); err != nil {
		return nil, err
	}
	s := &Sim{
		Cfg:      cfg,
		Dir:      dir,
		Path:     filepath.Join(dir, "life0", "resonate.db"),
		Now:      cfg.Epoch,
		reqByTag: map[string]*ReqRec{},
		cursors:  map[int]*t_api.Request{},
		Stats:    map[string]int{},
		Probes:   map[string]int{},
		StateFp:  map[string]bool{},
		opts:     opts,
	}
	s.rules = newRuleState(s)
	if err := s.bootServer(); err != nil {
		s.Close()
		return nil, err
	}
	return s, nil
}

func (s *Sim) Close() {
	if s.db != nil {
		_ = s.db.Close()
		s.db = nil
	}
	if s.obs != nil {
		_ = s.obs.Close()
		s.obs = nil
	}
	_ = os.RemoveAll(s.Dir)
}

func (s *Sim) nextEv() int64 {
	s.Ev++
	return s.Ev
}

func (s *Sim) logf(format string, a ...any) {
	if s.opts.Log != nil {
		s.opts.Log(fmt.Sprintf("[ev %d t=%d] ", s.Ev, s.Now-s.Cfg.Epoch) + fmt.Sprintf(format, a...))
	}
}

func (s *Sim) violate(rule string, props []string, kind, cond, detail string) {
	v := &Violation{Rule: rule, Props: props, Kind: kind, Cond: cond, Detail: detail, Ev: s.Ev, Step: s.stepNo}
	s.Violations = append(s.Violations, v)
	s.logf("VIOLATION %s %s %s: %s", rule, kind, cond, detail)
}

func (s *Sim) bgEnabled(name string) bool {
	if s.Cfg.NoBackground {
		return false
	}
	if len(s.Cfg.Background) == 0 {
		return true
	}
	for _, b := range s.Cfg.Background {
		if b == name {
			return true
		}
	}
	return false
}

// bootServer builds a fresh server process over the database file.
func (s *Sim) bootServer() error {
	cfg := s.Cfg
	s.boot++
	s.metrics = metrics.New(prometheus.NewRegistry())
	s.ctl = faultdb.NewControl()
	s.ctl.OnCommit = s.onCommit
	s.db = faultdb.Open(s.Path, s.ctl)
	if s.obs == nil {
		obs, err := sql.Open("sqlite3", "file:"+s.Path+"?mode=ro&_busy_timeout=0")
		if err != nil {
			return err
		}
		obs.SetMaxOpenConns(1)
		s.obs = obs
	}

	a := api.New(cfg.ApiSize, s.metrics)
	io := aio.New(cfg.AioSize, s.metrics)
	s.api, s.aio = a, io
	s.inCQ = 0
	s.shells = map[t_aio.Kind]*shell{
		t_aio.Store:  {sim: s, kind: t_aio.Store, cap: cfg.StoreQ},
		t_aio.Router: {sim: s, kind: t_aio.Router, cap: cfg.RouterQ},
		t_aio.Sender: {sim: s, kind: t_aio.Sender, cap: cfg.SenderQ},
	}
	for _, sh := range []t_aio.Kind{t_aio.Router, t_aio.Sender, t_aio.Store} {
		io.AddSubsystem(s.shells[sh])
	}

	// production store over the fault driver
	st, err := sqlite.NewWithDB(io, s.metrics, &sqlite.Config{Size: 1, BatchSize: cfg.StoreBatch, Path: s.Path, TxTimeout: time.Hour, Reset: defaultSqliteReset()}, s.db)
	if err != nil {
		return err
	}
	if err := st.Start(nil); err != nil {
		return fmt.Errorf("store start: %w", err)
	}
	s.store = st

	// production router
	rc := &router.Config{Size: 1, Workers: 1}
	for _, src := range cfg.Sources {
		rc.Sources = append(rc.Sources, router.SourceConfig{Name: src.Name, Type: src.Type, Data: src.Data})
	}
	rt, err := router.New(io, s.metrics, rc)
	if err != nil {
		return err
	}
	s.router = rt

	// production sender worker with simulated transports
	sc := &sender.Config{Size: 1}
	sc.Plugins.Http.Enabled = false
	sc.Plugins.Poll.Enabled = false
	for _, t := range cfg.Targets {
		sc.Targets = append(sc.Targets, sender.TargetConfig{Name: t.Name, Type: t.Type, Data: t.Data})
	}
	sd, err := sender.New(&parkAIO{AIO: io, sim: s}, s.metrics, sc)
	if err != nil {
		return err
	}
	sd.Worker().AddPlugin(&simPlugin{typ: "http", sim: s})
	sd.Worker().AddPlugin(&simPlugin{typ: "poll", sim: s})
	s.sender = sd

	sys := system.New(a, io, &system.Config{
		Url:                 cfg.Url,
		CoroutineMaxSize:    cfg.Coroutines,
		SubmissionBatchSize: cfg.SubBatch,
		CompletionBatchSize: cfg.CqBatch,
		PromiseBatchSize:    cfg.PromiseBatch,
		ScheduleBatchSize:   cfg.ScheduleBatch,
		TaskBatchSize:       cfg.TaskBatch,
		TaskEnqueueDelay:    time.Duration(cfg.EnqueueDelayMs) * time.Millisecond,
		SignalTimeout:       time.Duration(cfg.SignalTimeoutMs) * time.Millisecond,
	}, s.metrics)
	wire(sys, s.bgEnabled)
	s.sys = sys
	s.alive = true
	s.fronts = nil
	s.shutdownRequested = false
	s.stopped = false

	// first snapshot of this life
	snap, err := tables.Load(s.obs)
	if err != nil {
		return fmt.Errorf("snapshot: %w", err)
	}
	if s.Last != nil {
		s.rules.onRestart(s.Last, snap)
	}
	s.Last = snap
	s.Model = snap.Clone()
	s.ModelSync = true
	return nil
}

// onCommit is called by the fault driver after every successful commit of the
// store connection.
func (s *Sim) onCommit(wrote bool) {
	for _, tx := range s.curBatch {
		tx.Committed = true
		tx.Wrote = wrote
	}
}

// ---------------------------------------------------------------------- steps

// Exec executes one step; steps that are not enabled are no-ops. A panic in
// production code on this goroutine is turned into a violation.
func (s *Sim) Exec(i int, st *Step) (ran bool) {
	s.stepNo = i
	Beat()
	defer func() {
		if r := recover(); r != nil {
			stack := string(debug.Stack())
			frame := topProductionFrame(stack)
			if frame == "" {
				// harness bug: re-panic
				panic(fmt.Sprintf("harness panic: %v\n%s", r, stack))
			}
			v := &Violation{Rule: "panic", Props: []string{"C13", "C12"}, Kind: st.Op, Cond: fmt.Sprint(r), Detail: stack, Ev: s.Ev, Step: i, Frame: frame}
			if len(v.Cond) > 120 {
				v.Cond = v.Cond[:120]
			}
			s.Violations = append(s.Violations, v)
			s.alive = false // the server process is gone
			ran = true
		}
	}()
	switch st.Op {
	case "req":
		return s.stepReq(st)
	case "tick":
		return s.stepTick(st.Dt)
	case "work":
		return s.stepWork(st)
	case "deliver":
		return s.stepDeliver(st.Sub, st.K)
	case "crash":
		return s.stepCrash()
	case "restart":
		return s.stepRestart(st)
	case "shutdown":
		return s.stepShutdown()
	case "quiesce":
		return s.stepQuiesce(st.Rounds)
	case "diskfull":
		// the disk is full from now on: writing statements fail, reads succeed, for the next N store
		// transactions (N = 0: until the final quiesce, a restart, or a later diskfull step)
		if !s.alive {
			return false
		}
		s.ctl.FailWrites = st.N
		if st.N == 0 {
			s.ctl.FailWrites = 1 << 30
		}
		s.Stats["disk_full_period"]++
		return true
	case "drain":
		// finish what is queued without letting time pass (no new background period starts)
		if !s.alive {
			return false
		}
		s.fair = true
		s.autoRound(0)
		s.fair = false
		return true
	case "settle":
		s.autoOutcomes, s.autoIdx = st.Outcomes, 0
		s.firstDt = st.Dt
		if st.FaultSeed != 0 {
			s.autoFaults = rand.New(rand.NewSource(st.FaultSeed))
		}
		if lim := s.Cfg.SignalTimeoutMs / 4; st.Inner > 0 && st.Inner <= lim {
			s.innerDt = st.Inner
		}
		defer func() { s.autoOutcomes, s.innerDt, s.firstDt, s.autoFaults = nil, 0, 0, nil }()
		return s.stepSettle(st.Rounds)
	}
	return false
}

func topProductionFrame(stack string) string {
	lines := strings.Split(stack, "\n")
	for i := 0; i+1 < len(lines); i++ {
		l := lines[i]
		if strings.HasPrefix(l, "github.com/resonatehq/resonate/") && !strings.HasPrefix(l, "github.com/resonatehq/resonate/verif/") {
			fn := l
			if j := strings.LastIndex(fn, "("); j > 0 {
				fn = fn[:j]
			}
			if strings.HasSuffix(fn, "util.Assert") {
				continue
			}
			return strings.TrimPrefix(fn, "github.com/resonatehq/resonate/")
		}
		if strings.HasPrefix(l, "github.com/resonatehq/gocoro") {
			continue
		}
	}
	return ""
}

func (s *Sim) stepTick(dt int64) bool {
	if dt < 0 {
		dt = 0 // the simulated clock is monotone; the oracles rely on it
	}
	if !s.alive || s.stopped {
		// time passes even when the server is down
		s.Now += dt
		return true
	}
	s.Now += dt
	s.Ticks = append(s.Ticks, s.Now)
	s.nextEv()
	for _, sh := range s.shells {
		sh.flushed = false
	}
	s.sys.Tick(s.Now)
	// a batching worker releases a partial batch only when it is flushed, and a flush can be
	// consumed before the submissions it was meant for: whatever waits in a subsystem at the end of
	// a tick must have been flushed during that tick (the next tick does it again)
	for _, kind := range []t_aio.Kind{t_aio.Router, t_aio.Sender, t_aio.Store} {
		if sh := s.shells[kind]; sh != nil && len(sh.q) > 0 && !sh.flushed && s.alive {
			s.violate("K.no_flush", []string{"C12"}, "kernel", "submissions wait in a subsystem at the end of a tick that did not flush it", fmt.Sprintf("%s holds %d submission(s)", kind, len(sh.q)))
		}
	}
	return true
}

func (s *Sim) stepDeliver(sub string, k int) bool {
	if !s.alive {
		return false
	}
	sh := s.shellByName(sub)
	if sh == nil || len(sh.parked) == 0 {
		return false
	}
	room := s.Cfg.AioSize - s.inCQ
	if room <= 0 {
		s.Stats["cq_full"]++
		return false
	}
	if k <= 0 || k > len(sh.parked) {
		k = len(sh.parked)
	}
	if k > room {
		k = room
		s.Stats["cq_full"]++
	}
	for _, cqe := range sh.parked[:k] {
		orig := cqe.Callback
		c := cqe
		c.Callback = func(comp *t_aio.Completion, err error) {
			s.inCQ--
			orig(comp, err)
		}
		s.inCQ++
		s.aio.EnqueueCQE(c)
	}
	sh.parked = append([]*aioCQE{}, sh.parked[k:]...)
	return true
}

// drainInTick lets the worker of a subsystem make progress in the middle of
// a kernel tick: push parked completions while the completion queue has room,
// and, once everything is pushed, process the next batch.
func (s *Sim) drainInTick(sh *shell) {
	sub := sh.kind.String()
	for i := 0; i < 4; i++ {
		if len(sh.parked) > 0 {
			s.stepDeliver(sub, 0)
		}
		if len(sh.parked) > 0 && sub != "sender" {
			return
		}
		if len(sh.q) < sh.cap {
			return
		}
		s.Stats["worker_ran_mid_tick"]++
		if !s.stepWork(&Step{Op: "work", Sub: sub}) {
			return
		}
	}
}

func (s *Sim) shellByName(sub string) *shell {
	switch sub {
	case "store":
		return s.shells[t_aio.Store]
	case "router":
		return s.shells[t_aio.Router]
	case "sender":
		return s.shells[t_aio.Sender]
	}
	return nil
}

func has(xs []int, i int) bool {
	for _, x := range xs {
		if x == i {
			return true
		}
	}
	return false
}

func (s *Sim) stepWork(st *Step) bool {
	if !s.alive {
		return false
	}
	sh := s.shellByName(st.Sub)
	if sh == nil || len(sh.q) == 0 {
		return false
	}
	// the worker of a subsystem pushes all completions of a batch before it
	// collects the next one
	if len(sh.parked) > 0 && st.Sub != "sender" {
		return false
	}
	n := st.N
	if n <= 0 || n > len(sh.q) {
		n = len(sh.q)
	}
	if st.Sub == "store" && n > s.Cfg.StoreBatch {
		n = s.Cfg.StoreBatch
	}
	take := append([]*aioSQE{}, sh.q[:n]...)
	if s.Cfg.Reorder && len(st.Perm) > 0 {
		// pick the submissions named by perm (indices into the whole queue)
		idx := []int{}
		seen := map[int]bool{}
		for _, p := range st.Perm {
			if p >= 0 && p < len(sh.q) && !seen[p] && len(idx) < n {
				idx = append(idx, p)
				seen[p] = true
			}
		}
		if len(idx) > 0 {
			take = take[:0]
			for _, p := range idx {
				take = append(take, sh.q[p])
			}
			rest := []*aioSQE{}
			for i, e := range sh.q {
				if !seen[i] {
					rest = append(rest, e)
				}
			}
			sh.q = rest
			s.Stats["reorder"]++
		} else {
			sh.q = append([]*aioSQE{}, sh.q[n:]...)
		}
	} else {
		sh.q = append([]*aioSQE{}, sh.q[n:]...)
	}

	switch st.Sub {
	case "store":
		s.workStore(st, take)
	case "router":
		s.workRouter(st, take)
	case "sender":
		s.workSender(st, take)
	}
	if s.crashNow {
		s.crashNow = false
		s.doCrash()
	}
	return true
}

func (s *Sim) workRouter(st *Step, take []*aioSQE) {
	sh := s.shells[t_aio.Router]
	for i, sqe := range take {
		if has(st.Pre, i) {
			s.Stats["aio.pre_fail.router"]++
			sh.parked = append(sh.parked, &aioCQE{Id: sqe.Id, Callback: sqe.Callback, Error: errors.New("simulated failure before processing")})
			continue
		}
		cqes := s.router.Process([]*aioSQE{sqe})
		cqe := cqes[0]
		if has(st.Post, i) {
			s.Stats["aio.post_fail.router"]++
			cqe.Completion, cqe.Error = nil, errors.New("simulated failure after processing")
		}
		s.rules.onRouter(sqe, cqe)
		sh.parked = append(sh.parked, cqe)
	}
}

func (s *Sim) workSender(st *Step, take []*aioSQE) {
	sh := s.shells[t_aio.Sender]
	for i, sqe := range take {
		t := sqe.Submission.Sender.Task
		rec := &SendRec{Ev: s.nextEv(), Cycle: sqe.Submission.Tags["id"], TaskId: t.Id, Counter: t.Counter}
		if t.Mesg != nil {
			rec.Mesg = string(t.Mesg.Type)
		}
		s.Sends = append(s.Sends, rec)
		if has(st.Pre, i) {
			s.Stats["aio.pre_fail.sender"]++
			rec.Pre = true
			rec.Err = "pre_fail"
			sh.parked = append(sh.parked, &aioCQE{Id: sqe.Id, Callback: sqe.Callback, Error: errors.New("simulated failure before processing")})
			s.rules.onSend(rec)
			continue
		}
		s.curOutcome = "ok"
		if st.Op == "work" && i < len(st.Outcomes) && st.Outcomes[i] != "" {
			s.curOutcome = st.Outcomes[i]
		} else if len(s.autoOutcomes) > 0 {
			s.curOutcome = s.autoOutcomes[s.autoIdx%len(s.autoOutcomes)]
			s.autoIdx++
		}
		s.curCycle, s.curTaskId, s.curCounter = rec.Cycle, t.Id, t.Counter
		s.curSender = s.curSender[:0]
		s.sender.Worker().Process(sqe)
		if len(s.curSender) != 1 {
			s.violate("K.sender_once", []string{"C12"}, "sender", fmt.Sprintf("completions=%d", len(s.curSender)), fmt.Sprintf("sender produced %d completions for one submission (task %s)", len(s.curSender), t.Id))
		}
		for _, cqe := range s.curSender {
			if cqe.Error != nil {
				rec.Err = cqe.Error.Error()
			} else if cqe.Completion != nil && cqe.Completion.Sender != nil {
				rec.Success = cqe.Completion.Sender.Success
			}
			if has(st.Post, i) {
				s.Stats["aio.post_fail.sender"]++
				rec.Post = true
				cqe.Completion, cqe.Error = nil, errors.New("simulated failure after processing")
			}
		}
		s.rules.onSend(rec)
	}
}

func (s *Sim) workStore(st *Step, take []*aioSQE) {
	sh := s.shells[t_aio.Store]
	s.Batches++
	var process []*aioSQE
	var recs []*TxRec
	out := make([]*aioCQE, len(take))
	for i, sqe := range take {
		tr := &TxRec{Tag: sqe.Submission.Tags["id"], Name: sqe.Submission.Tags["name"], Tx: sqe.Submission.Store.Transaction, Batch: s.Batches, Clock: s.Now}
		s.Txs = append(s.Txs, tr)
		if r := s.reqByTag[tr.Tag]; r != nil {
			r.Txs = append(r.Txs, tr)
		}
		if has(st.Pre, i) {
			s.Stats["aio.pre_fail.store"]++
			tr.PreFail = true
			tr.Err = errors.New("simulated failure before processing")
			tr.Ev = s.nextEv()
			out[i] = &aioCQE{Id: sqe.Id, Callback: sqe.Callback, Error: tr.Err}
			continue
		}
		process = append(process, sqe)
		recs = append(recs, tr)
	}
	if len(process) > 0 {
		crash := st.CrashAt
		if st.Sql != nil {
			f := *st.Sql
			s.ctl.Next = &f
		} else if crash == "before" {
			s.ctl.Next = &faultdb.Fault{Where: "commit", Err: "ioerr"}
		}
		if crash == "mid" || crash == "before" {
			s.ctl.OnFire = func() {
				if s.image == "" {
					s.takeImage()
				}
			}
		}
		s.curBatch = recs
		before := s.Last
		ev := s.nextEv()
		for _, tr := range recs {
			tr.Ev = ev
		}
		cqes := s.store.Process(process)
		s.curBatch = nil
		s.ctl.Next = nil
		s.ctl.OnFire = nil
		committed := recs[0].Committed
		wrote := recs[0].Wrote
		for j, cqe := range cqes {
			recs[j].Err = cqe.Error
			if cqe.Completion != nil && cqe.Completion.Store != nil {
				recs[j].Results = cqe.Completion.Store.Results
			}
		}
		after := before
		if committed && wrote {
			changed := map[string][]int64{}
			for _, ch := range s.ctl.Changes {
				changed[ch.Table] = append(changed[ch.Table], ch.Rowid)
			}
			snap, err := tables.Apply(before, s.obs, changed)
			if err != nil {
				panic(fmt.Sprintf("harness: snapshot failed: %v", err))
			}
			s.commitNo++
			if s.commitNo%97 == 0 {
				// cross-check the incremental snapshot against a full read
				full, err := tables.Load(s.obs)
				if err != nil {
					panic(fmt.Sprintf("harness: snapshot failed: %v", err))
				}
				if d := tables.Diff(snap, full, false); len(d) > 0 {
					panic("harness: incremental snapshot differs from a full read: " + strings.Join(d, "; "))
				}
			}
			after = snap
		}
		if st.Sql != nil || crash == "before" {
			if !committed {
				s.Stats["sql.fault_fired"]++
			}
		}
		s.Last = after
		if s.opts.Log != nil {
			var sb strings.Builder
			for _, tr := range recs {
				sb.WriteString(tr.Tag + ":" + txSig(tr) + " ")
			}
			s.logf("STORE batch committed=%v %s", committed, sb.String())
		}
		s.afterBatch(before, after, recs, committed)
		j := 0
		for i := range take {
			if out[i] != nil {
				continue
			}
			cqe := cqes[j]
			if has(st.Post, i) && cqe.Error == nil {
				s.Stats["aio.post_fail.store"]++
				recs[j].PostFail = true
				cqe.Completion, cqe.Error = nil, errors.New("simulated failure after processing")
			}
			out[i] = cqe
			j++
		}
		if crash != "" {
			s.Stats["crash."+crash]++
			s.crashNow = true
		}
	}
	sh.parked = append(sh.parked, out...)
}

// afterBatch runs the store-level reference model and every table rule.
func (s *Sim) afterBatch(before, after *tables.Tables, recs []*TxRec, committed bool) {
	// reference model
	if s.ModelSync {
		txs := make([]*t_aio.Transaction, len(recs))
		for i, r := range recs {
			txs[i] = r.Tx
		}
		m := s.Model.Clone()
		pres := make([]*tables.Tables, len(recs))
		posts := make([]*tables.Tables, len(recs))
		var mres [][]*tables.MResult
		var merr error
		mres = make([][]*tables.MResult, len(recs))
		for i, tx := range txs {
			pres[i] = m.Clone()
			mres[i] = make([]*tables.MResult, len(tx.Commands))
			for j, c := range tx.Commands {
				r, err := m.Exec(c)
				if err != nil {
					merr = err
					break
				}
				mres[i][j] = r
			}
			if merr != nil {
				break
			}
			posts[i] = m.Clone()
		}
		s.rules.checkStoreRefinement(recs, committed, m, mres, merr, after)
		if committed && merr == nil {
			if d := tables.Diff(m, after, false); len(d) == 0 {
				for i, r := range recs {
					r.Pre, r.Post = pres[i], posts[i]
				}
			}
		}
		s.Model = after.Clone()
	}
	if committed {
		s.StateFp[after.Fingerprint()] = true
		sig := make([]string, 0, len(recs))
		for _, r := range recs {
			sig = append(sig, txSig(r))
		}
		s.commitSig = append(s.commitSig, strings.Join(sig, ";"))
	}
	s.rules.onBatch(before, after, recs, committed)
	for _, r := range recs {
		if rq := s.reqByTag[r.Tag]; rq == nil || rq.Responses > 0 || rq.Lost {
			r.Pre, r.Post = nil, nil
		}
	}
}

func txSig(r *TxRec) string {
	var sb strings.Builder
	sb.WriteString(r.Name)
	sb.WriteString("[")
	for i, c := range r.Tx.Commands {
		if i > 0 {
			sb.WriteString(",")
		}
		sb.WriteString(c.Kind.String())
		if i < len(r.Results) && r.Results[i] != nil {
			h, _ := tables.Canon(r.Results[i])
			if j := strings.Index(h, " "); j >= 0 {
				sb.WriteString(":" + h[j+1:])
			}
		}
	}
	sb.WriteString("]")
	return sb.String()
}

// ------------------------------------------------------------ crash / restart

func (s *Sim) stepCrash() bool {
	if !s.alive {
		return false
	}
	s.Stats["crash.between"]++
	s.doCrash()
	return true
}

// takeImage copies the database files as they are now into a fresh directory: the crash image
// the next server life starts from.
func (s *Sim) takeImage() {
	src := filepath.Dir(s.Path)
	s.lives++
	dst := filepath.Join(s.Dir, fmt.Sprintf("life%d", s.lives))
	if err := os.MkdirAll(dst, 0o755); err != nil {
		panic("harness: crash image: " + err.Error())
	}
	ents, err := os.ReadDir(src)
	if err != nil {
		panic("harness: crash image: " + err.Error())
	}
	for _, e := range ents {
		if e.IsDir() {
			continue
		}
		b, err := os.ReadFile(filepath.Join(src, e.Name()))
		if err != nil {
			continue // a journal may vanish between listing and reading
		}
		if err := os.WriteFile(filepath.Join(dst, e.Name()), b, 0o644); err != nil {
			panic("harness: crash image: " + err.Error())
		}
	}
	s.image = dst
	s.Stats["crash.image"]++
}

func (s *Sim) doCrash() {
	// everything in memory is gone; only the database file survives
	s.alive = false
	s.downAt = s.Now
	for _, r := range s.Reqs {
		if r.Responses == 0 && !r.Lost {
			r.Lost = true
		}
	}
	// the process is killed: what survives is the set of files as they are at that instant
	// (journal or write-ahead log included), not what a clean close would have made of them
	if s.image == "" {
		s.takeImage()
	}
	if s.db != nil {
		_ = s.db.Close()
		s.db = nil
	}
	if s.obs != nil {
		_ = s.obs.Close()
		s.obs = nil
	}
	if s.image != "" {
		old := filepath.Dir(s.Path)
		s.Path = filepath.Join(s.image, filepath.Base(s.Path))
		s.image = ""
		_ = os.RemoveAll(old)
	}
	s.checkHeldBodies()
	for _, m := range s.Msgs {
		m.bodyRef = nil
	}
	s.sys, s.api, s.aio, s.store, s.router, s.sender, s.shells = nil, nil, nil, nil, nil, nil, nil
	s.rules.onCrash()
	s.logf("CRASH")
}

func (s *Sim) stepRestart(st *Step) bool {
	if s.alive {
		return false
	}
	if st.Cfg != nil {
		epoch := s.Cfg.Epoch
		s.Cfg = *st.Cfg
		s.Cfg.Epoch = epoch
	}
	s.Now += st.Down
	s.Stats["restart"]++
	if s.db != nil {
		_ = s.db.Close()
		s.db = nil
	}
	if err := s.bootServer(); err != nil {
		s.violate("C06.restart", []string{"C06"}, "restart", "boot failed", err.Error())
		return true
	}
	s.logf("RESTART down=%d", st.Down)
	return true
}

// stepShutdown performs the graceful stop of cmd/serve: Shutdown, tick until
// Done, api.Stop, aio.Stop (with the production store Stop).
func (s *Sim) stepShutdown() bool {
	if !s.alive || s.shutdownRequested {
		return false
	}
	s.shutdownRequested = true
	s.Stats["shutdown"]++
	s.sys.Shutdown()
	s.rules.onShutdownRequested()
	return true
}

// finishShutdown is called once Done() holds.
func (s *Sim) finishShutdown() {
	before := s.Last
	_ = s.api.Stop()
	// aio.Stop would stop every subsystem; the shells have nothing to stop,
	// the production store has: close the queue, reset if configured, close
	// the database.
	if err := s.store.Stop(); err != nil {
		s.violate("C06.stop", []string{"C06"}, "shutdown", "store stop failed", err.Error())
	}
	s.db = nil
	s.stopped = true
	s.alive = false
	s.downAt = s.Now
	s.rules.onStopped(before)
}

// ------------------------------------------------------------------- quiesce

// pendingWork reports whether any queue of the simulated server holds work.
func (s *Sim) pendingWork() bool {
	if !s.alive {
		return false
	}
	for _, sh := range s.shells {
		if len(sh.q) > 0 || len(sh.parked) > 0 {
			return true
		}
	}
	return s.inCQ > 0
}

// autoRound runs one fault-free scheduling round: tick, then let every
// subsystem work and deliver until nothing moves.
func (s *Sim) autoRound(dt int64) {
	Beat()
	s.stepTick(dt)
	inner := int64(0)
	for guard := 0; guard < 10000; guard++ {
		moved := false
		for _, sub := range []string{"router", "store", "sender"} {
			ws := &Step{Op: "work", Sub: sub}
			if fr := s.autoFaults; fr != nil {
				// faults inside whole background cycles (settle steps that carry a fault seed)
				if n := len(s.shellByName(sub).q); n > 0 {
					for i := 0; i < n; i++ {
						if fr.Intn(16) == 0 {
							ws.Pre = append(ws.Pre, i)
						} else if fr.Intn(16) == 0 {
							ws.Post = append(ws.Post, i)
						}
					}
					if sub == "store" && fr.Intn(20) == 0 {
						ws.Sql = &faultdb.Fault{Where: pick(fr, []string{"stmt", "stmt", "commit", "begin"}), At: fr.Intn(6), Err: pick(fr, []string{"full", "ioerr", "busy"})}
						if ws.Sql.Where == "commit" && fr.Intn(2) == 0 {
							ws.Sql.Err = "txdone"
						}
					}
				}
			}
			if s.stepWork(ws) {
				moved = true
			}
			if s.stepDeliver(sub, 0) {
				moved = true
			}
		}
		if s.inCQ > 0 || moved {
			// time passes inside a round, but less than half a background period in total
			d := s.innerDt
			if inner+d > s.Cfg.SignalTimeoutMs/2 {
				d = 0
			}
			inner += d
			s.stepTick(d)
			moved = true
		}
		if !moved {
			return
		}
		if !s.alive {
			return
		}
	}
	// ten thousand scheduling rounds without the kernel going idle: requests or background
	// coroutines retry for ever (with the clock standing still or moving by a fraction of a period)
	s.violate("K.livelock", []string{"C12", "C11"}, "kernel", "no quiescence after 10000 scheduling rounds in one background period", fmt.Sprintf("queues: store=%d router=%d sender=%d completions=%d", len(s.shells[t_aio.Store].q), len(s.shells[t_aio.Router].q), len(s.shells[t_aio.Sender].q), s.inCQ))
	s.doCrash()
}

// stepSettle runs a few fault-free scheduling rounds (used by prologues); no
// convergence judgement is attached to it.
func (s *Sim) stepSettle(rounds int) bool {
	if !s.alive {
		return false
	}
	s.fair = true
	defer func() { s.fair = false }()
	step := s.Cfg.SignalTimeoutMs
	if step <= 0 {
		step = 1
	}
	for i := 0; i < rounds && s.alive; i++ {
		if i == 0 && s.firstDt >= step {
			s.autoRound(s.firstDt)
			continue
		}
		s.autoRound(step)
	}
	return true
}

func (s *Sim) stepQuiesce(rounds int) bool {
	if !s.alive {
		if s.stopped {
			return false
		}
		// restart with the same configuration first
		s.stepRestart(&Step{Op: "restart"})
		if !s.alive {
			return true
		}
	}
	s.fair = true
	defer func() { s.fair = false }()
	if s.ctl != nil {
		s.ctl.FailWrites = 0 // faults stop
	}
	step := s.Cfg.SignalTimeoutMs
	if step <= 0 {
		step = 1
	}
	// let requests that were still queued finish, then measure the backlog
	for i := 0; i < 3 && s.alive; i++ {
		s.autoRound(step)
	}
	if !s.alive {
		return true
	}
	s.rules.onQuiesceStart()
	if rounds <= 0 {
		rounds = s.rules.convergenceBudget()
	}
	for i := 0; i < rounds && s.alive; i++ {
		s.autoRound(step)
		if s.shutdownRequested && s.alive && s.sys.Done() {
			s.finishShutdown()
			break
		}
	}
	// the budget is an estimate: as long as the backlog keeps shrinking the
	// server is granted more periods; only a backlog that does not shrink for
	// a dozen periods (or is still there when nothing moves) is judged
	stall, extra := 0, 0
	last := s.rules.backlog()
	for s.alive && !s.shutdownRequested && last > 0 && extra < 200 && stall < 12 {
		s.autoRound(step)
		extra++
		if b := s.rules.backlog(); b < last {
			last, stall = b, 0
		} else {
			stall++
		}
	}
	if last > 0 && stall < 12 {
		s.Probes["convergence_inconclusive"]++
		s.rules.quiescing = false
		return true
	}
	s.rules.onQuiesceEnd(rounds + extra)
	return true
}

// Finish runs the end-of-run checks.
func (s *Sim) Finish() {
	s.rules.onFinish()
}

// ------------------------------------------------------------------- helpers

func (s *Sim) CommitSignature() string {
	return strings.Join(s.commitSig, "|")
}

func sortedStrings(m map[string]bool) []string {
	ks := make([]string, 0, len(m))
	for k := range m {
		ks = append(ks, k)
	}
	sort.Strings(ks)
	return ks
}

func jsonStr(v any) string {
	b, _ := json.Marshal(v)
	return string(b)
}
