package k

import (
	"encoding/json"
	"fmt"
	"strings"
	"sync"

	"github.com/spf13/cobra"

	"github.com/resonatehq/resonate/cmd/config"
	sapi "github.com/resonatehq/resonate/internal/app/subsystems/api"
	"github.com/resonatehq/resonate/internal/kernel/bus"
	"github.com/resonatehq/resonate/internal/kernel/t_api"
	"github.com/resonatehq/resonate/pkg/idempotency"
	"github.com/resonatehq/resonate/pkg/promise"
)

var (
	defaultsOnce sync.Once
	defReset     bool
	defConfig    *config.Config
)

// DefaultConfig returns the configuration the shipped binary uses when no
// flag is given (read through the real Bind + Parse).
func DefaultConfig() *config.Config {
	defaultsOnce.Do(func() {
		cmd := &cobra.Command{}
		cfg := &config.Config{}
		if err := cfg.Bind(cmd); err != nil {
			panic(err)
		}
		if err := cfg.Parse(); err != nil {
			panic(err)
		}
		defConfig = cfg
		defReset = cfg.AIO.Subsystems.StoreSqlite.Config.Reset
	})
	return defConfig
}

func defaultSqliteReset() bool {
	DefaultConfig()
	return defReset
}

func parseState(s string) promise.State {
	switch strings.ToUpper(s) {
	case "PENDING":
		return promise.Pending
	case "RESOLVED":
		return promise.Resolved
	case "REJECTED":
		return promise.Rejected
	case "REJECTED_CANCELED":
		return promise.Canceled
	case "REJECTED_TIMEDOUT":
		return promise.Timedout
	}
	return promise.Resolved
}

func (s *Sim) timeoutOf(sp *ReqSpec) int64 {
	if sp.TimeoutAbs != nil {
		return *sp.TimeoutAbs
	}
	return s.Now + sp.TimeoutRel
}

func ikey(k *string) *idempotency.Key {
	if k == nil {
		return nil
	}
	v := idempotency.Key(*k)
	return &v
}

func value(h map[string]string, d *string) promise.Value {
	v := promise.Value{}
	if h != nil {
		v.Headers = map[string]string{}
		for k, x := range h {
			v.Headers[k] = x
		}
	}
	if d != nil {
		v.Data = []byte(*d)
	}
	return v
}

func cpMap(m map[string]string) map[string]string {
	if m == nil {
		return nil
	}
	n := map[string]string{}
	for k, v := range m {
		n[k] = v
	}
	return n
}

// resolveCounter turns a symbolic counter into a number.
func (s *Sim) resolveCounter(sp *ReqSpec) int {
	switch sp.CounterFrom {
	case "snap":
		if t, ok := s.Last.Tasks[sp.Id]; ok {
			return int(t.Counter) + sp.Counter
		}
		return 1 + sp.Counter
	case "msg":
		for i := len(s.Msgs) - 1; i >= 0; i-- {
			if s.Msgs[i].TaskId == sp.Id {
				return s.Msgs[i].Counter + sp.Counter
			}
		}
		if t, ok := s.Last.Tasks[sp.Id]; ok {
			return int(t.Counter) + sp.Counter
		}
		return 1 + sp.Counter
	}
	return sp.Counter
}

// build turns a spec into a kernel request. ok=false: the step is a no-op.
// A non-nil *sapi.Error means the front-end helper refused the request.
func (s *Sim) build(client int, sp *ReqSpec) (*t_api.Request, *sapi.Error, bool) {
	switch sp.Kind {
	case "ReadPromise":
		return &t_api.Request{Kind: t_api.ReadPromise, ReadPromise: &t_api.ReadPromiseRequest{Id: sp.Id}}, nil, true
	case "CreatePromise":
		return &t_api.Request{Kind: t_api.CreatePromise, CreatePromise: &t_api.CreatePromiseRequest{
			Id: sp.Id, IdempotencyKey: ikey(sp.IKey), Strict: sp.Strict, Param: value(sp.Headers, sp.Data), Timeout: s.timeoutOf(sp), Tags: cpMap(sp.Tags),
		}}, nil, true
	case "CreatePromiseAndTask":
		to := s.timeoutOf(sp)
		return &t_api.Request{Kind: t_api.CreatePromiseAndTask, CreatePromiseAndTask: &t_api.CreatePromiseAndTaskRequest{
			Promise: &t_api.CreatePromiseRequest{Id: sp.Id, IdempotencyKey: ikey(sp.IKey), Strict: sp.Strict, Param: value(sp.Headers, sp.Data), Timeout: to, Tags: cpMap(sp.Tags)},
			Task:    &t_api.CreateTaskRequest{PromiseId: sp.Id, ProcessId: sp.Process, Ttl: int(sp.Ttl), Timeout: to},
		}}, nil, true
	case "CompletePromise":
		return &t_api.Request{Kind: t_api.CompletePromise, CompletePromise: &t_api.CompletePromiseRequest{
			Id: sp.Id, IdempotencyKey: ikey(sp.IKey), Strict: sp.Strict, State: parseState(sp.State), Value: value(sp.Headers, sp.Data),
		}}, nil, true
	case "CreateCallback":
		return &t_api.Request{Kind: t_api.CreateCallback, CreateCallback: &t_api.CreateCallbackRequest{
			Id: sp.Id, PromiseId: sp.PromiseId, RootPromiseId: sp.RootId, Timeout: s.timeoutOf(sp), Recv: json.RawMessage(sp.Recv),
		}}, nil, true
	case "CreateSubscription":
		return &t_api.Request{Kind: t_api.CreateSubscription, CreateSubscription: &t_api.CreateSubscriptionRequest{
			Id: sp.Id, PromiseId: sp.PromiseId, Timeout: s.timeoutOf(sp), Recv: json.RawMessage(sp.Recv),
		}}, nil, true
	case "ReadSchedule":
		return &t_api.Request{Kind: t_api.ReadSchedule, ReadSchedule: &t_api.ReadScheduleRequest{Id: sp.Id}}, nil, true
	case "DeleteSchedule":
		return &t_api.Request{Kind: t_api.DeleteSchedule, DeleteSchedule: &t_api.DeleteScheduleRequest{Id: sp.Id}}, nil, true
	case "CreateSchedule":
		// both front ends pass the cron expression and the promise id template through the
		// production helper before anything reaches the kernel
		helper := sapi.New(s.api, "sim")
		if aerr := helper.ValidateCron(sp.Cron); aerr != nil {
			return nil, aerr, true
		}
		if aerr := helper.ValidatePromiseIdTemplate(sp.PromiseId); aerr != nil {
			return nil, aerr, true
		}
		return &t_api.Request{Kind: t_api.CreateSchedule, CreateSchedule: &t_api.CreateScheduleRequest{
			Id: sp.Id, Description: sp.Desc, Cron: sp.Cron, Tags: cpMap(sp.Tags), PromiseId: sp.PromiseId, PromiseTimeout: sp.PromiseTimeout,
			PromiseParam: value(sp.Headers, sp.Data), PromiseTags: cpMap(sp.PromiseTags), IdempotencyKey: ikey(sp.IKey),
		}}, nil, true
	case "AcquireLock":
		return &t_api.Request{Kind: t_api.AcquireLock, AcquireLock: &t_api.AcquireLockRequest{ResourceId: sp.Resource, ExecutionId: sp.Execution, ProcessId: sp.Process, Ttl: sp.Ttl}}, nil, true
	case "ReleaseLock":
		return &t_api.Request{Kind: t_api.ReleaseLock, ReleaseLock: &t_api.ReleaseLockRequest{ResourceId: sp.Resource, ExecutionId: sp.Execution}}, nil, true
	case "HeartbeatLocks":
		return &t_api.Request{Kind: t_api.HeartbeatLocks, HeartbeatLocks: &t_api.HeartbeatLocksRequest{ProcessId: sp.Process}}, nil, true
	case "ClaimTask":
		return &t_api.Request{Kind: t_api.ClaimTask, ClaimTask: &t_api.ClaimTaskRequest{Id: sp.Id, Counter: s.resolveCounter(sp), ProcessId: sp.Process, Ttl: int(sp.Ttl)}}, nil, true
	case "CompleteTask":
		return &t_api.Request{Kind: t_api.CompleteTask, CompleteTask: &t_api.CompleteTaskRequest{Id: sp.Id, Counter: s.resolveCounter(sp)}}, nil, true
	case "HeartbeatTasks":
		return &t_api.Request{Kind: t_api.HeartbeatTasks, HeartbeatTasks: &t_api.HeartbeatTasksRequest{ProcessId: sp.Process}}, nil, true
	case "SearchPromises":
		// requests are built by the production front-end helper, as both front ends do
		helper := sapi.New(s.api, "sim")
		cursor := sp.RawCursor
		if sp.Cursor {
			prev := s.cursors[client]
			if prev == nil || prev.SearchPromises == nil {
				return nil, nil, false
			}
			c := &t_api.Cursor[t_api.SearchPromisesRequest]{Next: prev.SearchPromises}
			tok, err := c.Encode()
			if err != nil {
				return nil, nil, false
			}
			cursor = tok
		}
		state := ""
		if len(sp.States) == 1 {
			state = sp.States[0]
		}
		req, aerr := helper.SearchPromises(sp.Id, state, cpMap(sp.Tags), sp.Limit, cursor)
		if aerr != nil {
			return nil, aerr, true
		}
		return &t_api.Request{Kind: t_api.SearchPromises, SearchPromises: req}, nil, true
	case "SearchSchedules":
		helper := sapi.New(s.api, "sim")
		cursor := sp.RawCursor
		if sp.Cursor {
			prev := s.cursors[client]
			if prev == nil || prev.SearchSchedules == nil {
				return nil, nil, false
			}
			c := &t_api.Cursor[t_api.SearchSchedulesRequest]{Next: prev.SearchSchedules}
			tok, err := c.Encode()
			if err != nil {
				return nil, nil, false
			}
			cursor = tok
		}
		req, aerr := helper.SearchSchedules(sp.Id, cpMap(sp.Tags), sp.Limit, cursor)
		if aerr != nil {
			return nil, aerr, true
		}
		return &t_api.Request{Kind: t_api.SearchSchedules, SearchSchedules: req}, nil, true
	}
	return nil, nil, false
}

func (s *Sim) stepReq(st *Step) bool {
	if !s.alive || st.Req == nil {
		return false
	}
	if st.Req.Proto != "" {
		return s.stepReqFront(st)
	}
	req, aerr, ok := s.build(st.Client, st.Req)
	if !ok {
		return false
	}
	idx := len(s.Reqs)
	rec := &ReqRec{Idx: idx, Client: st.Client, Spec: st.Req, Step: s.stepNo, InvokeEv: s.nextEv(), TCall: s.Now, Boot: s.boot}
	s.Reqs = append(s.Reqs, rec)
	if aerr != nil {
		// refused by the front-end helper: never reaches the kernel
		rec.Responses = 1
		rec.RespEv = s.Ev
		rec.TResp = s.Now
		rec.Err = t_api.NewError(aerr.Code, nil)
		s.rules.onHelperRefusal(rec, aerr)
		return true
	}
	rec.Tag = fmt.Sprintf("r%d", idx)
	req.Tags = map[string]string{"id": rec.Tag, "name": req.Kind.String(), "protocol": "sim"}
	rec.Req = req
	s.reqByTag[rec.Tag] = rec
	s.logf("REQ %s %s", rec.Tag, req)
	s.api.EnqueueSQE(&bus.SQE[t_api.Request, t_api.Response]{
		Id:         rec.Tag,
		Submission: req,
		Callback: func(res *t_api.Response, err error) {
			rec.Responses++
			if rec.Responses > 1 {
				s.violate("C12.twice", []string{"C12"}, req.Kind.String(), "second response", fmt.Sprintf("request %s answered %d times", rec.Tag, rec.Responses))
				return
			}
			rec.Res, rec.Err = res, err
			rec.RespEv = s.nextEv()
			rec.TResp = s.Now
			s.logf("RES %s status=%d", rec.Tag, rec.Status())
			s.onResponse(rec)
		},
	})
	return true
}

func (s *Sim) onResponse(r *ReqRec) {
	// remember cursors for follow-up pages
	if r.Res != nil {
		switch r.Res.Kind {
		case t_api.SearchPromises:
			if c := r.Res.SearchPromises.Cursor; c != nil && c.Next != nil {
				s.cursors[r.Client] = &t_api.Request{Kind: t_api.SearchPromises, SearchPromises: c.Next}
			} else {
				delete(s.cursors, r.Client)
			}
		case t_api.SearchSchedules:
			if c := r.Res.SearchSchedules.Cursor; c != nil && c.Next != nil {
				s.cursors[r.Client] = &t_api.Request{Kind: t_api.SearchSchedules, SearchSchedules: c.Next}
			} else {
				delete(s.cursors, r.Client)
			}
		}
	}
	s.rules.onResponse(r)
	// the states its transactions saw are no longer needed
	for _, tr := range r.Txs {
		tr.Pre, tr.Post = nil, nil
	}
}

func (s *Sim) onMessage(m *MsgRec) {
	s.rules.onMessage(m)
}
