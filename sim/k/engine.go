package k

import (
	"encoding/json"
	"fmt"
	"os"
)

// Engine is what the orchestrator needs from a simulation engine.
type Engine interface {
	Name() string
	Generate(prop string, seed int64, run int) (*RunResult, error)
	Replay(plan *Plan, verbose bool) (*RunResult, error)
	Samples(prop string, seed int64, n int) []any
	Rule(prop string) string
	Components() map[string]string
	Assumptions(prop string) []string
}

var engines = map[string]Engine{}
var engineOf = map[string]string{}

// Register makes an engine available and binds properties to it.
func Register(e Engine, props ...string) {
	engines[e.Name()] = e
	for _, p := range props {
		engineOf[p] = e.Name()
	}
}

func EngineFor(prop string) Engine { return engines[engineOf[prop]] }

func EngineByName(name string) Engine {
	if e, ok := engines[name]; ok {
		return e
	}
	return engines["K"]
}

// TraceFile, when set, makes Generate write the plan header and every step
// to that file before executing it.
var TraceFile string

type engineK struct{}

func init() {
	Register(engineK{}, "C01", "C02", "C03", "C04", "C05", "C06", "C07", "C08", "C09", "C10", "C11", "C12", "C13", "C14", "C15", "C19", "C20")
}

func (engineK) Name() string { return "K" }

func (engineK) Generate(prop string, seed int64, run int) (*RunResult, error) {
	opts := Options{}
	plan, res, err := Generate(prop, ProfileForRun(prop, run), seed, run, opts)
	if err != nil {
		return nil, err
	}
	res.Plan = plan
	return res, nil
}

func (engineK) Replay(plan *Plan, verbose bool) (*RunResult, error) {
	opts := Options{}
	if verbose {
		opts.Log = func(s string) { fmt.Println(s) }
	}
	return Replay(plan, opts)
}

func (engineK) Samples(prop string, seed int64, n int) []any {
	var out []any
	for run := 0; run < 50 && len(out) < n; run++ {
		plan, res, err := Generate(prop, ProfileForRun(prop, run), seed, run, Options{})
		if err != nil || !res.Nontrivial {
			continue
		}
		if len(plan.Steps) > 40 {
			plan.Steps = append(plan.Steps[:40], Step{Op: fmt.Sprintf("... %d more steps", len(plan.Steps)-40)})
		}
		out = append(out, map[string]any{"run": run, "config": plan.Config, "steps": plan.Steps, "stats": res.Stats, "statuses": res.Statuses})
	}
	if len(out) == 0 {
		out = append(out, "no nontrivial run among the first 50")
	}
	return out
}

func (engineK) Rule(prop string) string {
	return "Each evaluation is one simulated run: a swarm configuration (queue, batch and pool sizes, delays, background set) and a step sequence " +
		"(submit / tick / store-router-sender work with batch composition, pre/post failures, SQL faults, crash points / deliver / crash / restart / shutdown / quiesce) " +
		"drawn online from VERIF_SEED against the simulated state and executed on the production kernel over real SQLite. " +
		"A run is non-trivial when at least one fault fired (aio pre/post failure, SQL error, crash, restart, refused or failed hand-off, full completion queue, shutdown, reorder) " +
		"or at least one conditional write lost its compare-and-set; distinct = distinct commit-order signatures (hash of the sequence of per-transaction (coroutine, command kinds, rows affected/returned) plus the fault counters) among non-trivial runs."
}

func (engineK) Components() map[string]string {
	return map[string]string{
		"coroutines (internal/app/coroutines)":          "real",
		"gocoro scheduler":                              "real",
		"system.Tick / AddOnRequest / background":       "real (wiring generated from cmd/serve/serve.go)",
		"System.Loop, api.Signal, aio.Signal":           "stub (simulator calls Tick)",
		"internal/api/api.go queue":                     "real",
		"internal/aio/aio.go":                           "real (except Signal)",
		"subsystem worker loops, store.Collect":         "stub (scheduler decides batches)",
		"store.Process / Execute / SQL text":            "real",
		"SQLite engine":                                 "real (file database on tmpfs through a fault-injecting database/sql driver)",
		"router worker Process / TagSource":             "real",
		"sender worker Process":                         "real (hook H3)",
		"http transport":                                "real HttpWorker.Process (hook H7) over a simulated network (RoundTripper deciding outcomes); queue and worker loop stubbed",
		"poll transport":                                "address handling real (PollWorker.Process over an empty registry), delivery stubbed here; the whole plugin runs in engine P",
		"HTTP / gRPC front ends":                        "not part of this engine",
		"search request helper (api.SearchPromises...)": "real",
	}
}

func (engineK) Assumptions(prop string) []string {
	return []string{
		"SQLite's atomic commit and query engine are trusted; torn or lost writes inside the database file are not simulated",
		"crashes are modelled as: connection dies (open transaction rolled back), every in-memory object discarded, database file reopened",
		"the server clock never runs backwards (ticks are non-decreasing, zero-length ticks included)",
		"robfig/cron is trusted for which instants are occurrences of an expression",
		"sampling, not proof: bounds are 1-10 ids per entity kind, up to ~200 steps and ~80 requests per run",
	}
}

// traceHeader / traceStep support cmd trace.
func traceHeader(plan *Plan) {
	if TraceFile == "" {
		return
	}
	b, _ := json.Marshal(plan)
	_ = os.WriteFile(TraceFile, append(b, '\n'), 0o644)
}

func traceStep(st *Step) {
	if TraceFile == "" {
		return
	}
	f, err := os.OpenFile(TraceFile, os.O_APPEND|os.O_WRONLY, 0o644)
	if err != nil {
		return
	}
	b, _ := json.Marshal(st)
	_, _ = f.Write(append(b, '\n'))
	_ = f.Close()
}
