//go:build go1.25

// Package p is engine P: the production poll worker loop and HTTP handler of
// the poll transport inside a testing/synctest bubble (fake clock, quiescence
// detection), driven one event at a time by a seeded scheduler.
//
// It is compiled as a test binary with go1.26.8 (testing/synctest needs a
// *testing.T) and spoken to by the orchestrator through environment variables
// and JSON lines on stdout.
package p

import (
	"runtime"
	"bufio"
	"context"
	"crypto/sha256"
	"encoding/hex"
	"encoding/json"
	"fmt"
	"io"
	"log/slog"
	"math/rand"
	"net/http"
	"os"
	"runtime/debug"
	"strconv"
	"strings"
	"testing"
	"testing/synctest"
	"time"

	"github.com/prometheus/client_golang/prometheus"

	"github.com/resonatehq/resonate/internal/aio"
	"github.com/resonatehq/resonate/internal/app/plugins/poll"
	"github.com/resonatehq/resonate/internal/metrics"
	"github.com/resonatehq/resonate/pkg/message"

	"github.com/resonatehq/resonate/verif/sim/k"
)

// ---------------------------------------------------------------- plan (steps)

// PStep kinds: connect, disconnect, send, release, gate, stop.
type pcfg struct {
	Buffer int  `json:"buffer"`
	Max    int  `json:"max"`
	Size   int  `json:"size"`
	Gated  bool `json:"gated"` // clients accept bytes only when the scheduler lets them
}

func encodeCfg(c pcfg) k.Config {
	// engine P stores its configuration in the generic plan config
	return k.Config{ApiSize: c.Buffer, AioSize: c.Max, StoreQ: c.Size, Reorder: c.Gated}
}

func decodeCfg(c k.Config) pcfg {
	return pcfg{Buffer: c.ApiSize, Max: c.AioSize, Size: c.StoreQ, Gated: c.Reorder}
}

// step encoding in k.Step: Op; Sub = group; Req.Id = id; Req.Kind = message type; N = connection index; K = count
func stepConnect(group, id string) k.Step {
	return k.Step{Op: "connect", Sub: group, Req: &k.ReqSpec{Id: id}}
}

// ------------------------------------------------------------------- fake http

type client struct {
	idx     int
	group   string
	id      string
	ctx     context.Context
	cancel  context.CancelFunc
	written []string
	status  int
	dead    bool
	gate    chan struct{} // nil = ungated
	done    chan struct{}
	hdr     http.Header
}

func (c *client) Header() http.Header { return c.hdr }
func (c *client) WriteHeader(s int)   { c.status = s }
func (c *client) Flush()              {}
func (c *client) Write(b []byte) (int, error) {
	if c.gate != nil {
		select {
		case <-c.gate:
		case <-c.ctx.Done():
		}
	}
	if c.dead {
		return 0, fmt.Errorf("client gone")
	}
	if c.status == 0 {
		c.status = 200
	}
	c.written = append(c.written, string(b))
	return len(b), nil
}

// ------------------------------------------------------------------- the model

type mconn struct {
	c      *client
	queued int // bytes handed to the connection and not yet taken by the handler
}

type model struct {
	groups map[string][]*mconn
	n      int
}

func (m *model) find(c *client) (string, int) {
	for g, cs := range m.groups {
		for i, x := range cs {
			if x.c == c {
				return g, i
			}
		}
	}
	return "", -1
}

// ------------------------------------------------------------------------ run

type sent struct {
	idx    int
	typ    string
	group  string
	id     string
	body   string
	hold   bool
	dones  int
	ok     bool
	err    string
	parked chan struct{}
	// expectation recorded when the worker processed it
	mustDeliver bool
	mayDeliver  []*client
}

type prun struct {
	t       *testing.T
	cfg     pcfg
	d       *poll.Detached
	clients []*client
	msgs    []*sent
	m       *model
	viol    []*k.Violation
	stats   map[string]int
	probes  map[string]int
	log     []string
	stepNo  int
	parked  *sent // the message whose Done currently parks the worker
	pendingRegistry int
	queuedSends     []*sent // enqueued while the worker is parked (FIFO)
	deferred        []func()
	pendingKind     string
	desync          bool // a handler panicked: the registry model no longer tracks the worker
	workerDone      chan struct{}
	stopped bool
	verbose bool
}

func (r *prun) violate(rule, kind, cond, detail string) {
	props := []string{"C18"}
	if rule == "panic" {
		// a transport that crashes on a stored address or on a history of connections is C13's concern too
		props = []string{"C18", "C13"}
	}
	if rule == "P.wrong_listener" || rule == "P.misdelivered" || rule == "P.lost" {
		// a message that ends up with a listener the address does not name, or with none although the
		// hand-off was reported successful, is C19's "lost or misdirected message" as well
		props = []string{"C18", "C19"}
	}
	if rule == "P.unanswered" || (rule == "P.done_once" && cond == "dones=0") {
		// a hand-off the transport never completes keeps the dispatcher waiting for ever: no later task is
		// dispatched, which is C11's "transport failures delay this but never prevent it"
		props = []string{"C18", "C11"}
	}
	r.viol = append(r.viol, &k.Violation{Rule: rule, Props: props, Kind: kind, Cond: cond, Detail: detail, Step: r.stepNo})
	if rule == "panic" {
		r.logf("VIOLATION %s %s", rule, cond) // stacks carry addresses
	} else {
		r.logf("VIOLATION %s %s: %s", rule, cond, detail)
	}
}

func (r *prun) logf(f string, a ...any) {
	s := fmt.Sprintf(f, a...)
	r.log = append(r.log, s)
	if r.verbose {
		fmt.Println(s)
	}
}

func (r *prun) newClient(group, id string) *client {
	ctx, cancel := context.WithCancel(context.Background())
	c := &client{idx: len(r.clients), group: group, id: id, ctx: ctx, cancel: cancel, done: make(chan struct{}), hdr: http.Header{}}
	if r.cfg.Gated {
		c.gate = make(chan struct{}, 64)
	}
	r.clients = append(r.clients, c)
	return c
}

// the registry model, updated in the order in which the worker consumes events

func (r *prun) modelConnect(c *client) {
	m := r.m
	// a reconnect with the same id replaces the older connection
	for i, x := range m.groups[c.group] {
		if x.c.id == c.id {
			m.groups[c.group] = append(m.groups[c.group][:i], m.groups[c.group][i+1:]...)
			m.n--
			x.c.dead = x.c.dead // the older stream is closed by the worker
			r.probes["replaced"]++
			break
		}
	}
	if m.n >= r.cfg.Max {
		r.probes["refused_max_connections"]++
		return
	}
	m.groups[c.group] = append(m.groups[c.group], &mconn{c: c})
	m.n++
}

func (r *prun) modelDisconnect(c *client) {
	if g, i := r.m.find(c); i >= 0 {
		r.m.groups[g] = append(r.m.groups[g][:i], r.m.groups[g][i+1:]...)
		r.m.n--
	}
}

// expectation for a message at the moment the worker processes it
func (r *prun) expect(s *sent) {
	cs := r.m.groups[s.group]
	s.mustDeliver, s.mayDeliver = false, nil
	if len(cs) == 0 {
		return
	}
	room := func(x *mconn) bool { return x.queued < r.cfg.Buffer }
	var exact *mconn
	if s.id != "" {
		for _, x := range cs {
			if x.c.id == s.id {
				exact = x
			}
		}
	}
	if exact != nil {
		s.mayDeliver = []*client{exact.c}
		s.mustDeliver = room(exact)
		return
	}
	if s.typ == string(message.Notify) {
		return // notifications go only to the exact id
	}
	all := true
	for _, x := range cs {
		s.mayDeliver = append(s.mayDeliver, x.c)
		if !room(x) {
			all = false
		}
	}
	s.mustDeliver = all
}

func (r *prun) wait() { synctest.Wait() }

// settleModel: after quiescence, handlers have taken what they can from their channels
func (r *prun) settleModel() {
	for _, cs := range r.m.groups {
		for _, x := range cs {
			if !r.cfg.Gated {
				x.queued = 0
			}
		}
	}
}

func (r *prun) exec(st *k.Step) {
	switch st.Op {
	case "connect":
		if r.stopped || (r.parked != nil && r.pendingRegistry > 0 && r.pendingKind != "connect") {
			return
		}
		c := r.newClient(st.Sub, st.Req.Id)
		req, _ := http.NewRequestWithContext(c.ctx, "GET", "/"+c.group+"/"+c.id, nil)
		go func() {
			defer close(c.done)
			defer func() {
				if p := recover(); p != nil {
					r.violate("panic", "handler", fmt.Sprint(p), string(debug.Stack()))
					r.desync = true
				}
			}()
			r.d.Handler.ServeHTTP(c, req)
		}()
		r.logf("connect #%d %s/%s", c.idx, c.group, c.id)
		if r.parked != nil {
			r.wait()
			if c.status == http.StatusTooManyRequests {
				r.probes["connect_queue_full"]++
				return
			}
			r.pendingRegistry++
			r.pendingKind = "connect"
			// consumed when the worker is released: remember for the model
			r.deferred = append(r.deferred, func() { r.modelConnect(c) })
			return
		}
		r.wait()
		if c.status == http.StatusTooManyRequests {
			r.probes["connect_queue_full"]++
			return
		}
		r.modelConnect(c)
	case "disconnect":
		if st.N < 0 || st.N >= len(r.clients) || (r.parked != nil && r.pendingRegistry > 0 && r.pendingKind != "disconnect") {
			return
		}
		c := r.clients[st.N]
		select {
		case <-c.done:
			return // its handler has already returned
		default:
		}
		if c.dead {
			return
		}
		c.dead = true
		c.cancel()
		r.logf("disconnect #%d %s/%s", c.idx, c.group, c.id)
		if r.parked != nil {
			r.pendingRegistry++
			r.pendingKind = "disconnect"
			r.wait()
			r.deferred = append(r.deferred, func() { r.modelDisconnect(c) })
			return
		}
		r.wait()
		r.modelDisconnect(c)
	case "send":
		if r.stopped {
			return
		}
		s := &sent{idx: len(r.msgs), typ: st.Req.Kind, group: st.Sub, id: st.Req.Id, body: fmt.Sprintf("m%d", len(r.msgs)), hold: st.N == 1, parked: make(chan struct{})}
		data, _ := json.Marshal(map[string]string{"group": s.group, "id": s.id})
		if s.id == "" {
			data, _ = json.Marshal(map[string]string{"group": s.group})
		}
		if st.Req.Data != nil {
			data = []byte(*st.Req.Data)
		}
		msg := &aio.Message{Type: message.Type(s.typ), Data: data, Body: []byte(s.body), Done: func(ok bool, err error) {
			s.dones++
			s.ok = ok
			if err != nil {
				s.err = err.Error()
			}
			r.logf("done m%d ok=%v err=%v", s.idx, ok, err)
			// every completion is a yield point: the worker waits for the scheduler
			r.parked = s
			<-s.parked
		}}
		r.msgs = append(r.msgs, s)
		// decide what this submission means before the worker can see it
		wasParked := r.parked != nil
		if !wasParked {
			r.expect(s)
		}
		r.logf("send m%d %s to %s/%s", s.idx, s.typ, s.group, s.id)
		if !r.d.Enqueue(msg) {
			r.probes["sq_full"]++
			s.dones = -1
			r.logf("send m%d refused (queue full)", s.idx)
			return
		}
		if wasParked {
			r.queuedSends = append(r.queuedSends, s)
			return
		}
		r.wait()
		r.judge(s)
	case "release":
		r.release()
	case "gate":
		if st.N >= 0 && st.N < len(r.clients) && r.clients[st.N].gate != nil {
			c := r.clients[st.N]
			for i := 0; i < st.K; i++ {
				select {
				case c.gate <- struct{}{}:
				default:
				}
			}
			r.wait()
			if _, i := r.m.find(c); i >= 0 {
				g, _ := r.m.find(c)
				x := r.m.groups[g][i]
				x.queued -= st.K
				if x.queued < 0 {
					x.queued = 0
				}
			}
		}
	case "stop":
		if r.stopped {
			return
		}
		for r.parked != nil {
			r.release()
		}
		r.stopped = true
		if st.K == 0 {
			// every client goes away first, one at a time, while the worker is idle
			for _, c := range r.clients {
				select {
				case <-c.done:
					continue
				default:
				}
				c.dead = true
				c.cancel()
				r.wait()
				r.modelDisconnect(c)
			}
		}
		// as Poll.Stop: close the submission queue; the worker closes every
		// registered connection (and any that still registers), so every
		// handler returns by itself; then the registry channels are closed.
		// The worker polls while it waits for that, so there is no quiescent
		// point in between.
		r.d.Stop()
		for _, c := range r.clients {
			if c.gate != nil {
				for i := 0; i < 32; i++ {
					select {
					case c.gate <- struct{}{}:
					default:
					}
				}
			}
			<-c.done
		}
		r.d.StopRegistry()
		<-r.workerDone
		r.m.groups = map[string][]*mconn{}
		r.m.n = 0
		r.probes["stopped"]++
	}
}

// process: the worker has taken message s (it was idle); evaluate it.
func (r *prun) process(s *sent) {
	r.expect(s)
	r.wait()
	r.judge(s)
}

func (r *prun) judge(s *sent) {
	if r.desync {
		return
	}
	if s.dones != 1 {
		r.violate("P.done_once", "send", fmt.Sprintf("dones=%d", s.dones), fmt.Sprintf("message m%d (%s to %s/%s) got %d completions", s.idx, s.typ, s.group, s.id, s.dones))
		return
	}
	// where did its bytes go?
	var got []*client
	for _, c := range r.clients {
		for _, w := range c.written {
			if w == "data: "+s.body+"\n\n" {
				got = append(got, c)
			}
		}
	}
	// bytes may still sit in a gated connection's buffer: count the model's queue instead
	if s.ok {
		r.probes["delivered"]++
		ok := false
		for _, c := range s.mayDeliver {
			_ = c
			ok = true
		}
		if !ok {
			r.violate("P.misdelivered", "send", "delivered without an eligible listener", fmt.Sprintf("m%d (%s to %s/%s) reported delivered although no registered listener is eligible", s.idx, s.typ, s.group, s.id))
		}
		if len(got) > 1 {
			r.violate("P.duplicated", "send", "delivered to several listeners", fmt.Sprintf("m%d written to %d streams", s.idx, len(got)))
		}
		if !r.cfg.Gated {
			if len(got) != 1 {
				r.violate("P.lost", "send", "reported delivered but not written to a stream", fmt.Sprintf("m%d (%s to %s/%s)", s.idx, s.typ, s.group, s.id))
			} else {
				elig := false
				for _, c := range s.mayDeliver {
					if c == got[0] {
						elig = true
					}
				}
				if !elig {
					r.violate("P.wrong_listener", "send", "handed to a listener that is not the right one", fmt.Sprintf("m%d (%s to %s/%s) written to #%d %s/%s", s.idx, s.typ, s.group, s.id, got[0].idx, got[0].group, got[0].id))
				}
			}
		} else {
			// account for the buffer slot it took (we do not know which member for random choice; only exact is tracked)
			if len(s.mayDeliver) == 1 {
				if g, i := r.m.find(s.mayDeliver[0]); i >= 0 {
					r.m.groups[g][i].queued++
				}
			}
		}
	} else {
		r.probes["refused"]++
		if len(got) > 0 {
			r.violate("P.ghost", "send", "reported failed but written to a stream", fmt.Sprintf("m%d", s.idx))
		}
		if s.mustDeliver && !(r.cfg.Gated && strings.Contains(s.err, "connection full")) {
			r.violate("P.not_delivered", "send", "a registered eligible listener with room was not given the message", fmt.Sprintf("m%d (%s to %s/%s): %s", s.idx, s.typ, s.group, s.id, s.err))
		}
	}
}

// release lets the parked worker continue: it consumes the pending registry
// event (if any) and then the next queued message (if any), where it parks again.
func (r *prun) release() {
	if r.parked == nil {
		return
	}
	p := r.parked
	r.parked = nil
	// what the worker will do next, in order
	deferred := r.deferred
	r.deferred = nil
	r.pendingRegistry = 0
	var next *sent
	if len(r.queuedSends) > 0 {
		next = r.queuedSends[0]
		r.queuedSends = r.queuedSends[1:]
	}
	r.settleModel()
	for _, f := range deferred {
		f()
	}
	if next != nil {
		r.expect(next)
	}
	close(p.parked)
	r.wait()
	if next != nil {
		r.judge(next)
	}
}

func (r *prun) finish() {
	for i := 0; i < 100 && r.parked != nil; i++ {
		r.release()
	}
	r.exec(&k.Step{Op: "stop", K: len(r.msgs) % 2})
	for _, s := range r.msgs {
		if s.dones == 0 {
			r.violate("P.unanswered", "send", "message never completed", fmt.Sprintf("m%d (%s to %s/%s)", s.idx, s.typ, s.group, s.id))
		}
	}
	for _, c := range r.clients {
		select {
		case <-c.done:
		default:
			r.violate("P.stream_open", "connect", "stream still open after stop", fmt.Sprintf("#%d %s/%s", c.idx, c.group, c.id))
		}
	}
	// whatever reached a stream in the end (also out of a buffer that was gated when the message was
	// judged) reached a listener that was the right one when the worker took the message
	if !r.desync {
		for _, s := range r.msgs {
			for _, c := range r.clients {
				for _, w := range c.written {
					if w != "data: "+s.body+"\n\n" {
						continue
					}
					elig := false
					for _, e := range s.mayDeliver {
						if e == c {
							elig = true
						}
					}
					if !elig {
						r.violate("P.wrong_listener", "send", "handed to a listener that is not the right one", fmt.Sprintf("m%d (%s to %s/%s, reported ok=%v) written to #%d %s/%s", s.idx, s.typ, s.group, s.id, s.ok, c.idx, c.group, c.id))
					}
				}
			}
		}
	}
}

// ------------------------------------------------------------------ generation

func pick[T any](r *rand.Rand, xs []T) T { return xs[r.Intn(len(xs))] }

func (r *prun) deferredInit() {}

func runPlan(t *testing.T, plan *k.Plan, rng *rand.Rand, verbose bool) *k.RunResult {
	var res *k.RunResult
	synctest.Test(t, func(t *testing.T) {
		cfg := decodeCfg(plan.Config)
		rand.Seed(plan.Seed*7919 + int64(plan.Run)) //nolint: the transport picks a random group member with the global source
		r := &prun{t: t, cfg: cfg, m: &model{groups: map[string][]*mconn{}}, stats: map[string]int{}, probes: map[string]int{}, verbose: verbose}
		r.d = poll.NewDetached(metrics.New(prometheus.NewRegistry()), &poll.Config{Size: cfg.Size, BufferSize: cfg.Buffer, MaxConnections: cfg.Max, Timeout: time.Second})
		workerDone := make(chan struct{})
		r.workerDone = workerDone
		go func() {
			defer close(workerDone)
			defer func() {
				if p := recover(); p != nil {
					r.violate("panic", "worker", fmt.Sprint(p), string(debug.Stack()))
				}
			}()
			r.d.Worker.Start()
		}()
		r.wait()
		if rng != nil {
			// generate online
			groups := []string{"g1", "g2", "g3"}
			ids := []string{"a", "b", "c"}
			n := 10 + rng.Intn(40)
			for i := 0; i < n; i++ {
				var st k.Step
				switch x := rng.Intn(100); {
				case x < 25:
					st = stepConnect(pick(rng, groups[:2+rng.Intn(2)]), pick(rng, ids))
				case x < 37 && len(r.clients) > 0:
					st = k.Step{Op: "disconnect", N: rng.Intn(len(r.clients))}
				case x < 80:
					typ := pick(rng, []string{"invoke", "resume", "notify"})
					id := ""
					if rng.Intn(3) != 0 {
						id = pick(rng, ids)
					}
					st = k.Step{Op: "send", Sub: pick(rng, groups), Req: &k.ReqSpec{Kind: typ, Id: id}}
				case x < 92:
					st = k.Step{Op: "release"}
				case x < 97 && cfg.Gated && len(r.clients) > 0:
					st = k.Step{Op: "gate", N: rng.Intn(len(r.clients)), K: 1 + rng.Intn(3)}
				case x >= 99:
					st = k.Step{Op: "stop", K: rng.Intn(2)}
				default:
					st = k.Step{Op: "release"}
				}
				r.stepNo = len(plan.Steps)
				r.exec(&st)
				plan.Steps = append(plan.Steps, st)
			}
		} else {
			for i := range plan.Steps {
				st := plan.Steps[i]
				r.stepNo = i
				r.exec(&st)
			}
		}
		r.finish()
		<-workerDone
		// unblock any gated writers and wait for handlers
		for _, c := range r.clients {
			<-c.done
		}
		h := sha256.New()
		fmt.Fprint(h, strings.Join(r.log, "\n"))
		res = &k.RunResult{Property: plan.Property, Run: plan.Run, Seed: plan.Seed, Steps: len(plan.Steps), Requests: len(r.msgs), Stats: r.stats, Probes: r.probes, Statuses: map[string]int{}, Violations: r.viol}
		res.EventHash = hex.EncodeToString(h.Sum(nil)[:12])
		sg := sha256.Sum256([]byte(strings.Join(r.log, "|")))
		res.Sig = hex.EncodeToString(sg[:8])
		res.Nontrivial = r.probes["replaced"]+r.probes["refused"]+r.probes["refused_max_connections"] > 0
		res.States = []string{fmt.Sprintf("conns=%d msgs=%d", len(r.clients), len(r.msgs))}
	})
	return res
}

func genConfig(rng *rand.Rand) pcfg {
	return pcfg{Buffer: pick(rng, []int{1, 1, 2, 3, 100}), Max: pick(rng, []int{1, 2, 3, 5, 100}), Size: pick(rng, []int{1, 2, 10, 100}), Gated: rng.Intn(4) == 0}
}

type workerLine struct {
	Type   string       `json:"type"`
	Run    int          `json:"run"`
	Result *k.RunResult `json:"result,omitempty"`
}

func envInt(name string, def int64) int64 {
	if v := os.Getenv(name); v != "" {
		if n, err := strconv.ParseInt(v, 10, 64); err == nil {
			return n
		}
	}
	return def
}

// TestWorker is the entry point used by the orchestrator.
func TestWorker(t *testing.T) {
	mode := os.Getenv("VERIF_P_MODE")
	if mode == "" {
		t.Skip("engine P is driven by the orchestrator")
	}
	// one processor: inside a bubble the goroutines of the system under test then run one at a
	// time and switch only where they block or yield, whatever GOMAXPROCS the environment sets
	// (with several processors the production loop and its signal goroutines race for real)
	runtime.GOMAXPROCS(1)
	out := bufio.NewWriterSize(os.Stdout, 1<<20)
	defer out.Flush()
	enc := json.NewEncoder(out)
	slog.SetDefault(slog.New(slog.NewTextHandler(io.Discard, nil)))
	switch mode {
	case "worker":
		seed, from, stride, max, deadline := envInt("VERIF_P_SEED", 1), envInt("VERIF_P_FROM", 0), envInt("VERIF_P_STRIDE", 1), envInt("VERIF_P_MAX", 0), envInt("VERIF_P_DEADLINE", 0)
		n := int64(0)
		for run := from; ; run += stride {
			if deadline > 0 && time.Now().UnixMilli() >= deadline {
				break
			}
			if max > 0 && n >= max {
				break
			}
			n++
			_ = enc.Encode(&workerLine{Type: "start", Run: int(run)})
			out.Flush()
			rng := rand.New(rand.NewSource(seed*1_000_003 + run*7919 + 18))
			exec := runPlan
			plan := &k.Plan{Property: "C18", Profile: "poll", Seed: seed, Run: int(run), Engine: "P"}
			if os.Getenv("VERIF_P_PROP") == "C12" {
				exec = runLoopPlan
				plan = &k.Plan{Property: "C12", Profile: "loop", Seed: seed, Run: int(run), Engine: "L", Config: lEncode(genLoopConfig(rng))}
			} else {
				plan.Config = encodeCfg(genConfig(rng))
			}
			res := exec(t, plan, rng, os.Getenv("VERIF_P_VERBOSE") != "")
			if os.Getenv("VERIF_P_VERIFY_REPLAY") != "" && !stuckExit {
				b, _ := json.Marshal(plan)
				var p2 k.Plan
				_ = json.Unmarshal(b, &p2)
				if r2 := exec(t, &p2, nil, false); r2.EventHash != res.EventHash {
					res.EventHash += "!replay-diverged"
				}
			}
			if len(res.Violations) > 0 || os.Getenv("VERIF_P_KEEP_PLAN") != "" {
				res.Plan = plan
			}
			_ = enc.Encode(&workerLine{Type: "run", Run: int(run), Result: res})
			if stuckExit {
				out.Flush()
				os.Exit(3) // the orchestrator starts a new worker after this run
			}
			if n%200 == 0 && max == 0 && runtime.NumGoroutine() > 15000 {
				// goroutines of abandoned bubbles pile up: hand over to a fresh process
				out.Flush()
				os.Exit(3)
			}
		}
		_ = enc.Encode(&workerLine{Type: "done"})
	case "exec", "replay":
		b, err := os.ReadFile(os.Getenv("VERIF_P_PLAN"))
		if err != nil {
			t.Fatal(err)
		}
		var plan k.Plan
		if err := json.Unmarshal(b, &plan); err != nil {
			t.Fatal(err)
		}
		exec := runPlan
		if plan.Engine == "L" {
			exec = runLoopPlan
		}
		res := exec(t, &plan, nil, mode == "replay" && os.Getenv("VERIF_P_VERBOSE") != "")
		_ = enc.Encode(res)
		if stuckExit {
			out.Flush()
			os.Exit(0)
		}
	}
}
