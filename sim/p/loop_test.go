//go:build go1.25

package p

// Engine L: the production control loop (System.Loop, api.Signal, aio.Signal,
// Shutdown) with the production api and aio queues inside a testing/synctest
// bubble. Clients and one controlled subsystem are driven by a seeded
// scheduler, one action at a time with quiescence in between; the fake clock
// moves only when the scheduler sleeps. Oracle: exactly one response per
// request, accepted requests answered before Loop returns, later ones refused
// with the shutting-down error (property C12). A second part feeds the
// production store.Collect with sends, flushes and a close.

import (
	"sync/atomic"
	"crypto/sha256"
	"encoding/hex"
	"errors"
	"fmt"
	"math/rand"
	"runtime"
	"strings"
	"testing"
	"testing/synctest"
	"time"

	"github.com/prometheus/client_golang/prometheus"

	"github.com/resonatehq/resonate/internal/aio"
	"github.com/resonatehq/resonate/internal/api"
	"github.com/resonatehq/resonate/internal/app/coroutines"
	"github.com/resonatehq/resonate/internal/app/subsystems/aio/store"
	"github.com/resonatehq/resonate/internal/kernel/bus"
	"github.com/resonatehq/resonate/internal/kernel/system"
	"github.com/resonatehq/resonate/internal/kernel/t_aio"
	"github.com/resonatehq/resonate/internal/kernel/t_api"
	"github.com/resonatehq/resonate/internal/metrics"

	"github.com/resonatehq/resonate/verif/sim/k"
)

type lcfg struct {
	Api, Aio, Pool, SubBatch, CqBatch, SubQ int
	SignalMs                                int64
}

func lEncode(c lcfg) k.Config {
	return k.Config{ApiSize: c.Api, AioSize: c.Aio, Coroutines: c.Pool, SubBatch: c.SubBatch, CqBatch: c.CqBatch, StoreQ: c.SubQ, SignalTimeoutMs: c.SignalMs}
}

func lDecode(c k.Config) lcfg {
	return lcfg{Api: c.ApiSize, Aio: c.AioSize, Pool: c.Coroutines, SubBatch: c.SubBatch, CqBatch: c.CqBatch, SubQ: c.StoreQ, SignalMs: c.SignalTimeoutMs}
}

// ctlSub is the controlled subsystem (kind Echo): it accepts submissions up
// to a capacity the scheduler sets and completes them when the scheduler says.
type ctlSub struct {
	cap     int
	pending []*bus.SQE[t_aio.Submission, t_aio.Completion]
}

func (c *ctlSub) String() string           { return "sim:echo" }
func (c *ctlSub) Kind() t_aio.Kind         { return t_aio.Echo }
func (c *ctlSub) Start(chan<- error) error { return nil }
func (c *ctlSub) Stop() error              { return nil }
func (c *ctlSub) Flush(int64)              {}
func (c *ctlSub) Enqueue(sqe *bus.SQE[t_aio.Submission, t_aio.Completion]) bool {
	if len(c.pending) >= c.cap {
		return false
	}
	c.pending = append(c.pending, sqe)
	return true
}

type lreq struct {
	idx          int
	responses    int
	status       int
	afterShut    bool
	beforeReturn bool
}

type lrun struct {
	cfg      lcfg
	sys      *system.System
	api      api.API
	aio      aio.AIO
	sub      *ctlSub
	reqs     []*lreq
	viol     []*k.Violation
	probes   map[string]int
	log      []string
	stepNo   int
	shut     bool
	loopDone chan struct{}
	returned bool
	inflight int // completions handed to helper goroutines, not yet in the queue
	verbose  bool
}

func (r *lrun) violate(rule, kind, cond, detail string) {
	r.viol = append(r.viol, &k.Violation{Rule: rule, Props: []string{"C12"}, Kind: kind, Cond: cond, Detail: detail, Step: r.stepNo})
	r.logf("VIOLATION %s %s %s", rule, cond, detail)
}

func (r *lrun) logf(f string, a ...any) {
	s := fmt.Sprintf(f, a...)
	r.log = append(r.log, s)
	if r.verbose {
		fmt.Println(s)
	}
}

// settle waits for quiescence. After shutdown has been requested the
// production loop polls (the short-circuit channel stays ready) until every
// coroutine has finished, so there is no quiescent point: yield instead.
func (r *lrun) settle() {
	if r.shut && !r.returned {
		for i := 0; i < 200; i++ {
			runtime.Gosched()
			select {
			case <-r.loopDone:
				return
			default:
			}
		}
		return
	}
	synctest.Wait()
}

func (r *lrun) exec(st *k.Step) {
	if r.shut && !r.returned && st.Op == "sleep" {
		return // the fake clock cannot move while the loop polls
	}
	switch st.Op {
	case "submit", "submit_shutdown":
		// submit_shutdown: shutdown is requested right after the submission, before the loop has
		// had a chance to look at it (the request has been accepted, it must still be answered)
		for i := 0; i < st.N; i++ {
			q := &lreq{idx: len(r.reqs), afterShut: r.shut}
			r.reqs = append(r.reqs, q)
			tag := fmt.Sprintf("r%d", q.idx)
			r.api.EnqueueSQE(&bus.SQE[t_api.Request, t_api.Response]{Id: tag, Submission: &t_api.Request{Kind: t_api.Echo, Tags: map[string]string{"id": tag, "name": "Echo", "protocol": "sim"}, Echo: &t_api.EchoRequest{Data: tag}},
				Callback: func(res *t_api.Response, err error) {
					q.responses++
					if err != nil {
						var e *t_api.Error
						if errors.As(err, &e) {
							q.status = int(e.Code())
						} else {
							q.status = -1
						}
					} else {
						q.status = 200
						if res.Echo == nil || res.Echo.Data != tag {
							q.status = -2
						}
					}
					q.beforeReturn = !r.returned
				}})
		}
		r.logf("%s %d", st.Op, st.N)
		if st.Op == "submit_shutdown" && !r.shut {
			r.shut = true
			r.sys.Shutdown()
			r.logf("shutdown")
			r.settle()
			r.checkReturned()
			break
		}
		r.settle()
	case "complete":
		n := st.N
		if n <= 0 || n > len(r.sub.pending) {
			n = len(r.sub.pending)
		}
		for _, sqe := range r.sub.pending[:n] {
			cqe := &bus.CQE[t_aio.Submission, t_aio.Completion]{Id: sqe.Id, Callback: sqe.Callback}
			if st.K == 1 {
				cqe.Error = errors.New("simulated subsystem failure")
			} else {
				cqe.Completion = &t_aio.Completion{Kind: t_aio.Echo, Tags: sqe.Submission.Tags, Echo: &t_aio.EchoCompletion{Data: sqe.Submission.Echo.Data}}
			}
			// a worker pushes the completion; it blocks while the completion queue is full
			go r.aio.EnqueueCQE(cqe)
		}
		r.sub.pending = append([]*bus.SQE[t_aio.Submission, t_aio.Completion]{}, r.sub.pending[n:]...)
		r.logf("complete %d kind=%d", n, st.K)
		r.settle()
	case "cap":
		r.sub.cap = st.N
	case "sleep":
		time.Sleep(time.Duration(st.Dt) * time.Millisecond)
		synctest.Wait()
	case "shutdown":
		if r.shut {
			return
		}
		r.shut = true
		r.sys.Shutdown()
		r.logf("shutdown")
		r.settle()
		r.checkReturned()
	}
	r.checkReturned()
	for _, q := range r.reqs {
		if q.responses > 1 {
			r.violate("L.twice", "Echo", "second response", fmt.Sprintf("r%d answered %d times", q.idx, q.responses))
			q.responses = 1
		}
	}
}

func (r *lrun) checkReturned() {
	if r.returned {
		return
	}
	select {
	case <-r.loopDone:
		r.returned = true
		r.logf("loop returned")
		// everything accepted before must have been answered by now
		for _, q := range r.reqs {
			if !q.afterShut && q.responses == 0 {
				r.violate("L.unanswered_at_return", "Echo", "accepted request not answered when the loop returned", fmt.Sprintf("r%d", q.idx))
			}
		}
	default:
	}
}

func (r *lrun) finish() {
	// faults stop: complete everything and give the loop time
	for i := 0; i < 200 && !r.returned; i++ {
		if len(r.sub.pending) > 0 {
			r.exec(&k.Step{Op: "complete"})
		}
		r.exec(&k.Step{Op: "sleep", Dt: r.cfg.SignalMs})
		if !r.shut && len(r.sub.pending) == 0 && r.allAnswered() {
			break
		}
	}
	if !r.shut {
		r.exec(&k.Step{Op: "shutdown"})
		for i := 0; i < 50 && !r.returned; i++ {
			if len(r.sub.pending) > 0 {
				r.exec(&k.Step{Op: "complete"})
			}
			r.exec(&k.Step{Op: "sleep", Dt: r.cfg.SignalMs})
		}
	}
	if r.shut && !r.returned {
		// everything is completed: the polling loop must come to an end
		for i := 0; i < 5_000_000 && !r.returned; i++ {
			if len(r.sub.pending) > 0 {
				r.exec(&k.Step{Op: "complete"})
			}
			runtime.Gosched()
			r.checkReturned()
		}
	}
	if !r.returned {
		r.violate("L.loop_stuck", "Loop", "loop did not return after shutdown", fmt.Sprintf("pending=%d", len(r.sub.pending)))
	}
	// a late request is refused explicitly
	before := len(r.reqs)
	r.exec(&k.Step{Op: "submit", N: 1})
	if q := r.reqs[before]; q.responses != 1 || q.status != int(t_api.StatusSystemShuttingDown) {
		r.violate("L.late_not_refused", "Echo", "request after shutdown not refused with the shutting-down error", fmt.Sprintf("responses=%d status=%d", q.responses, q.status))
	}
	for _, q := range r.reqs {
		if q.responses == 0 {
			r.violate("L.unanswered", "Echo", "request never answered", fmt.Sprintf("r%d afterShutdown=%v", q.idx, q.afterShut))
		}
		if q.afterShut && q.responses == 1 && q.status != int(t_api.StatusSystemShuttingDown) {
			r.violate("L.accepted_after_shutdown", "Echo", "request submitted after shutdown was not refused", fmt.Sprintf("r%d status=%d", q.idx, q.status))
		}
		okStatus := map[int]bool{200: true, int(t_api.StatusAIOEchoError): true, int(t_api.StatusAPISubmissionQueueFull): true, int(t_api.StatusSchedulerQueueFull): true, int(t_api.StatusSystemShuttingDown): true}
		if q.responses == 1 && !okStatus[q.status] {
			r.violate("L.bad_status", "Echo", fmt.Sprintf("status=%d", q.status), fmt.Sprintf("r%d", q.idx))
		}
		r.probes[fmt.Sprintf("status.%d", q.status)]++
	}
}

func (r *lrun) allAnswered() bool {
	for _, q := range r.reqs {
		if q.responses == 0 {
			return false
		}
	}
	return true
}

// stuckExit is set when a run's result is complete but its bubble cannot end
// because the production loop spins for ever (a livelock is a C12 violation the
// run has already recorded); the worker then reports the result and leaves the process.
var stuckExit bool

func runLoopPlan(t *testing.T, plan *k.Plan, rng *rand.Rand, verbose bool) *k.RunResult {
	var resP atomic.Pointer[k.RunResult]
	finished := make(chan any, 1)
	go func() {
		defer func() { finished <- recover() }()
		runLoopBubble(t, plan, rng, verbose, &resP)
	}()
	var since time.Time
	for {
		select {
		case p := <-finished:
			res := resP.Load()
			// coroutines refused by a full scheduler queue leave their goroutine parked for
			// good; the bubble reports them when it ends
			if p != nil && (res == nil || !strings.Contains(fmt.Sprint(p), "blocked goroutines remain")) {
				panic(p)
			}
			return res
		case <-time.After(20 * time.Millisecond):
		}
		if res := resP.Load(); res != nil {
			if since.IsZero() {
				since = time.Now()
			} else if time.Since(since) > 3*time.Second {
				stuckExit = true
				return res
			}
		}
	}
}

func runLoopBubble(t *testing.T, plan *k.Plan, rng *rand.Rand, verbose bool, resP *atomic.Pointer[k.RunResult]) {
	var res *k.RunResult
	synctest.Test(t, func(t *testing.T) {
		cfg := lDecode(plan.Config)
		m := metrics.New(prometheus.NewRegistry())
		a := api.New(cfg.Api, m)
		io := aio.New(cfg.Aio, m)
		sub := &ctlSub{cap: cfg.SubQ}
		io.AddSubsystem(sub)
		sys := system.New(a, io, &system.Config{CoroutineMaxSize: cfg.Pool, SubmissionBatchSize: cfg.SubBatch, CompletionBatchSize: cfg.CqBatch, PromiseBatchSize: 1, ScheduleBatchSize: 1, TaskBatchSize: 1, SignalTimeout: time.Duration(cfg.SignalMs) * time.Millisecond}, m)
		sys.AddOnRequest(t_api.Echo, coroutines.Echo)
		r := &lrun{cfg: cfg, sys: sys, api: a, aio: io, sub: sub, probes: map[string]int{}, loopDone: make(chan struct{}), verbose: verbose}
		go func() {
			defer close(r.loopDone)
			_ = sys.Loop()
		}()
		synctest.Wait()
		if rng != nil {
			n := 8 + rng.Intn(40)
			for i := 0; i < n; i++ {
				var st k.Step
				switch x := rng.Intn(100); {
				case x < 40:
					st = k.Step{Op: "submit", N: 1 + rng.Intn(6)}
				case x < 70:
					st = k.Step{Op: "complete", N: rng.Intn(4), K: pick(rng, []int{0, 0, 0, 1})}
				case x < 85:
					st = k.Step{Op: "sleep", Dt: pick(rng, []int64{0, 1, cfg.SignalMs / 2, cfg.SignalMs, 3 * cfg.SignalMs})}
				case x < 93:
					st = k.Step{Op: "cap", N: pick(rng, []int{0, 1, 2, 100})}
				case x < 95:
					st = k.Step{Op: "shutdown"}
				case x < 97:
					st = k.Step{Op: "submit_shutdown", N: 1 + rng.Intn(3)}
				default:
					st = k.Step{Op: "submit", N: 8 + rng.Intn(8)}
				}
				r.stepNo = len(plan.Steps)
				r.exec(&st)
				plan.Steps = append(plan.Steps, st)
			}
		} else {
			for i := range plan.Steps {
				st := plan.Steps[i]
				r.stepNo = i
				r.exec(&st)
			}
		}
		r.finish()
		// part two: store.Collect
		r.collectPart(plan, rng)
		// let helper goroutines that are still blocked on a full completion queue go
		// (only when the loop is gone: taking completions from a live kernel would strand its coroutines)
		for i := 0; i < 1000 && r.returned; i++ {
			if len(io.DequeueCQE(1000)) == 0 {
				break
			}
			synctest.Wait()
		}
		h := sha256.New()
		fmt.Fprint(h, strings.Join(r.log, "\n"))
		res = &k.RunResult{Property: plan.Property, Run: plan.Run, Seed: plan.Seed, Steps: len(plan.Steps), Requests: len(r.reqs), Stats: map[string]int{}, Probes: r.probes, Statuses: map[string]int{}, Violations: r.viol}
		res.EventHash = hex.EncodeToString(h.Sum(nil)[:12])
		sg := sha256.Sum256([]byte(strings.Join(r.log, "|")))
		res.Sig = hex.EncodeToString(sg[:8])
		res.Nontrivial = r.probes[fmt.Sprintf("status.%d", t_api.StatusAPISubmissionQueueFull)]+r.probes[fmt.Sprintf("status.%d", t_api.StatusSchedulerQueueFull)]+r.probes[fmt.Sprintf("status.%d", t_api.StatusAIOEchoError)]+r.probes[fmt.Sprintf("status.%d", t_api.StatusSystemShuttingDown)] > 1
		res.States = []string{fmt.Sprintf("reqs=%d", len(r.reqs))}
		resP.Store(res)
	})
}

// collectPart drives the production store.Collect: items sent one at a time,
// flushes and a close; every item must come out exactly once, in order, in
// batches of at most n, and the loop must end at the close.
func (r *lrun) collectPart(plan *k.Plan, rng *rand.Rand) {
	seed := plan.Seed*31 + int64(plan.Run)
	lr := rand.New(rand.NewSource(seed))
	n := 1 + lr.Intn(4)
	c := make(chan *bus.SQE[t_aio.Submission, t_aio.Completion], 1+lr.Intn(4))
	f := make(chan int64, 1)
	var out [][]string
	done := make(chan struct{})
	go func() {
		defer close(done)
		for {
			batch, ok := store.Collect(c, f, n)
			ids := []string{}
			for _, s := range batch {
				ids = append(ids, s.Id)
			}
			if len(batch) > 0 {
				out = append(out, ids)
			}
			if !ok {
				return
			}
		}
	}()
	synctest.Wait()
	var sent []string
	steps := 5 + lr.Intn(20)
	for i := 0; i < steps; i++ {
		if lr.Intn(4) == 0 {
			select {
			case f <- int64(i):
			default:
			}
		} else {
			id := fmt.Sprintf("s%d", i)
			select {
			case c <- &bus.SQE[t_aio.Submission, t_aio.Completion]{Id: id}:
				sent = append(sent, id)
			default:
			}
		}
		synctest.Wait()
	}
	select {
	case f <- 0:
	default:
	}
	synctest.Wait()
	close(c)
	<-done
	var got []string
	for _, b := range out {
		if len(b) > n {
			r.violate("L.collect_batch", "Collect", "batch larger than n", fmt.Sprintf("%v > %d", b, n))
		}
		got = append(got, b...)
	}
	if strings.Join(got, ",") != strings.Join(sent, ",") {
		r.violate("L.collect_lost", "Collect", "submissions lost, duplicated or reordered", fmt.Sprintf("sent %v got %v", sent, got))
	}
	r.logf("collect n=%d sent=%d batches=%d", n, len(sent), len(out))
	r.probes["collect_checked"]++
}

func genLoopConfig(rng *rand.Rand) lcfg {
	small := []int{1, 1, 2, 3, 5, 100}
	return lcfg{Api: pick(rng, small), Aio: pick(rng, small), Pool: pick(rng, small), SubBatch: pick(rng, small), CqBatch: pick(rng, small), SubQ: pick(rng, small), SignalMs: pick(rng, []int64{10, 1000, 10000})}
}
