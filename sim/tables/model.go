package tables

import (
	"encoding/json"
	"fmt"
	"sort"
	"strings"

	"github.com/resonatehq/resonate/internal/kernel/t_aio"
	"github.com/resonatehq/resonate/pkg/idempotency"
	"github.com/resonatehq/resonate/pkg/lock"
	"github.com/resonatehq/resonate/pkg/promise"
	"github.com/resonatehq/resonate/pkg/schedule"
	"github.com/resonatehq/resonate/pkg/task"
)

// This file is the reference implementation of the store commands, written
// from the contract "each command is a conditional write on the current
// state and reports exactly the rows it changed or matched" (property C16):
//
//   create X           only if no X with that id exists
//   complete promise   only if it is pending
//   register callback  only on a pending promise and only once per id
//   update task        only if state is one of the expected ones and the counter matches
//   acquire lock       only if free or held by the same execution
//   ...
//
// It never looks at SQL text.

// MResult is a model result: the expected t_aio.Result plus, for queries whose
// row choice the contract leaves open, the candidates.
type MResult struct {
	Result *t_aio.Result
	// Open != nil: the query may return any Open.N of Open.Candidates
	// (ReadPromises), or one candidate per group in group order
	// (ReadEnqueueableTasks).
	Open *OpenChoice
}

type OpenChoice struct {
	Kind       string     // "subset" | "groups"
	N          int        // subset size
	Candidates []string   // canonical rows (subset)
	Groups     [][]string // canonical rows per group, in order (groups)
}

// ErrConstraint is returned when a command violates a uniqueness constraint:
// the enclosing batch must fail as a whole.
type ErrConstraint struct{ Msg string }

func (e *ErrConstraint) Error() string { return e.Msg }

func sp(s string) *string { return &s }
func ip(i int64) *int64   { return &i }

func keyp(k *idempotency.Key) *string {
	if k == nil {
		return nil
	}
	s := string(*k)
	return &s
}

func pkey(s *string) *idempotency.Key {
	if s == nil {
		return nil
	}
	k := idempotency.Key(*s)
	return &k
}

func mj(v any) *string {
	b, err := json.Marshal(v)
	if err != nil {
		panic(err)
	}
	s := string(b)
	return &s
}

func bp(s *string) []byte {
	if s == nil {
		return nil
	}
	return []byte(*s)
}

// ExecBatch applies the transactions in order, all or nothing.
func (t *Tables) ExecBatch(txs []*t_aio.Transaction) ([][]*MResult, error) {
	backup := t.Clone()
	out := make([][]*MResult, len(txs))
	for i, tx := range txs {
		out[i] = make([]*MResult, len(tx.Commands))
		for j, c := range tx.Commands {
			r, err := t.Exec(c)
			if err != nil {
				*t = *backup
				return nil, err
			}
			out[i][j] = r
		}
	}
	return out, nil
}

func (p *Promise) Record(withSort bool) *promise.PromiseRecord {
	r := &promise.PromiseRecord{
		Id:                        p.Id,
		State:                     promise.State(p.State),
		ParamHeaders:              bp(p.ParamHeaders),
		ParamData:                 bp(p.ParamData),
		ValueHeaders:              bp(p.ValueHeaders),
		ValueData:                 bp(p.ValueData),
		Timeout:                   p.Timeout,
		IdempotencyKeyForCreate:   pkey(p.IkCreate),
		IdempotencyKeyForComplete: pkey(p.IkComplete),
		CreatedOn:                 cpi(p.CreatedOn),
		CompletedOn:               cpi(p.CompletedOn),
		Tags:                      bp(p.Tags),
	}
	if withSort {
		r.SortId = p.SortId
	}
	return r
}

func (k *Task) Record() *task.TaskRecord {
	return &task.TaskRecord{
		Id:            k.Id,
		ProcessId:     cps(k.ProcessId),
		State:         task.State(k.State),
		RootPromiseId: k.RootPromiseId,
		Recv:          bp(k.Recv),
		Mesg:          bp(k.Mesg),
		Timeout:       k.Timeout,
		Counter:       int(k.Counter),
		Attempt:       int(k.Attempt),
		Ttl:           int(k.Ttl),
		ExpiresAt:     k.ExpiresAt,
		CreatedOn:     cpi(k.CreatedOn),
		CompletedOn:   cpi(k.CompletedOn),
	}
}

// like implements the pattern language of the search commands: '*' (and the
// SQL wildcards '%') match any run of characters, '_' matches one character,
// ASCII letters match case-insensitively (the documented behaviour of the
// default store).
func like(pattern, s string) bool {
	p := []rune(strings.ToLower(pattern))
	r := []rune(strings.ToLower(s))
	// dynamic programming
	prev := make([]bool, len(r)+1)
	prev[0] = true
	for i := 1; i <= len(p); i++ {
		cur := make([]bool, len(r)+1)
		if p[i-1] == '%' {
			cur[0] = prev[0]
		}
		for j := 1; j <= len(r); j++ {
			switch p[i-1] {
			case '%':
				cur[j] = prev[j] || cur[j-1]
			case '_':
				cur[j] = prev[j-1]
			default:
				cur[j] = prev[j-1] && p[i-1] == r[j-1]
			}
		}
		prev = cur
	}
	return prev[len(r)]
}

// Like is exported for the search oracle.
func Like(pattern, s string) bool { return like(strings.ReplaceAll(pattern, "*", "%"), s) }

func tagsMatch(raw *string, want map[string]string) bool {
	if len(want) == 0 {
		return true
	}
	m := map[string]any{}
	if raw != nil {
		if err := json.Unmarshal([]byte(*raw), &m); err != nil {
			return false
		}
	}
	for k, v := range want {
		got, ok := m[k]
		if !ok {
			return false
		}
		gs, ok := got.(string)
		if !ok || gs != v {
			return false
		}
	}
	return true
}

// TagsMatch is exported for the search oracle.
func TagsMatch(raw *string, want map[string]string) bool { return tagsMatch(raw, want) }

func (t *Tables) Exec(c *t_aio.Command) (*MResult, error) {
	switch c.Kind {
	// ---------------------------------------------------------------- promises
	case t_aio.ReadPromise:
		res := &t_aio.QueryPromisesResult{}
		if p, ok := t.Promises[c.ReadPromise.Id]; ok {
			res.RowsReturned = 1
			res.Records = []*promise.PromiseRecord{p.Record(false)}
		}
		return &MResult{Result: &t_aio.Result{Kind: c.Kind, ReadPromise: res}}, nil

	case t_aio.ReadPromises:
		var cands []string
		for _, id := range SortedKeys(t.Promises) {
			p := t.Promises[id]
			if p.State == 1 && p.Timeout <= c.ReadPromises.Time {
				cands = append(cands, canonPromise(p.Record(true)))
			}
		}
		n := len(cands)
		if c.ReadPromises.Limit >= 0 && n > c.ReadPromises.Limit {
			n = c.ReadPromises.Limit
		}
		return &MResult{
			Result: &t_aio.Result{Kind: c.Kind, ReadPromises: &t_aio.QueryPromisesResult{RowsReturned: int64(n)}},
			Open:   &OpenChoice{Kind: "subset", N: n, Candidates: cands},
		}, nil

	case t_aio.SearchPromises:
		cmd := c.SearchPromises
		mask := 0
		for _, s := range cmd.States {
			mask |= int(s)
		}
		var rows []*Promise
		for _, p := range t.Promises {
			if cmd.SortId != nil && !(p.SortId < *cmd.SortId) {
				continue
			}
			if !Like(cmd.Id, p.Id) || p.State&mask == 0 || !tagsMatch(p.Tags, cmd.Tags) {
				continue
			}
			rows = append(rows, p)
		}
		sort.Slice(rows, func(i, j int) bool { return rows[i].SortId > rows[j].SortId })
		if cmd.Limit >= 0 && len(rows) > cmd.Limit {
			rows = rows[:cmd.Limit]
		}
		res := &t_aio.QueryPromisesResult{RowsReturned: int64(len(rows))}
		for _, p := range rows {
			res.Records = append(res.Records, p.Record(true))
			res.LastSortId = p.SortId
		}
		return &MResult{Result: &t_aio.Result{Kind: c.Kind, SearchPromises: res}}, nil

	case t_aio.CreatePromise:
		n := t.createPromise(c.CreatePromise)
		return &MResult{Result: &t_aio.Result{Kind: c.Kind, CreatePromise: &t_aio.AlterPromisesResult{RowsAffected: n}}}, nil

	case t_aio.UpdatePromise:
		cmd := c.UpdatePromise
		var n int64
		if old, ok := t.Promises[cmd.Id]; ok && old.State == 1 {
			cp := *old
			p := &cp
			t.Promises[cmd.Id] = p
			p.State = int(cmd.State)
			p.ValueHeaders = mj(cmd.Value.Headers)
			p.ValueData = sp(string(cmd.Value.Data))
			p.IkComplete = keyp(cmd.IdempotencyKey)
			p.CompletedOn = ip(cmd.CompletedOn)
			n = 1
		}
		return &MResult{Result: &t_aio.Result{Kind: c.Kind, UpdatePromise: &t_aio.AlterPromisesResult{RowsAffected: n}}}, nil

	// --------------------------------------------------------------- callbacks
	case t_aio.CreateCallback:
		cmd := c.CreateCallback
		var n int64
		if p, ok := t.Promises[cmd.PromiseId]; ok && p.State == 1 {
			if _, dup := t.Callbacks[cmd.Id]; !dup {
				t.Callbacks[cmd.Id] = &Callback{
					Id:            cmd.Id,
					PromiseId:     cmd.PromiseId,
					RootPromiseId: cmd.Mesg.Root,
					Recv:          sp(string(cmd.Recv)),
					Mesg:          mj(cmd.Mesg),
					Timeout:       cmd.Timeout,
					CreatedOn:     cmd.CreatedOn,
				}
				n = 1
			}
		}
		return &MResult{Result: &t_aio.Result{Kind: c.Kind, CreateCallback: &t_aio.AlterCallbacksResult{RowsAffected: n}}}, nil

	case t_aio.DeleteCallbacks:
		var n int64
		for _, id := range SortedKeys(t.Callbacks) {
			if t.Callbacks[id].PromiseId == c.DeleteCallbacks.PromiseId {
				delete(t.Callbacks, id)
				n++
			}
		}
		return &MResult{Result: &t_aio.Result{Kind: c.Kind, DeleteCallbacks: &t_aio.AlterCallbacksResult{RowsAffected: n}}}, nil

	// --------------------------------------------------------------- schedules
	case t_aio.ReadSchedule:
		res := &t_aio.QuerySchedulesResult{}
		if s, ok := t.Schedules[c.ReadSchedule.Id]; ok {
			res.RowsReturned = 1
			res.Records = []*schedule.ScheduleRecord{s.record("one")}
		}
		return &MResult{Result: &t_aio.Result{Kind: c.Kind, ReadSchedule: res}}, nil

	case t_aio.ReadSchedules:
		var rows []*Schedule
		for _, s := range t.Schedules {
			if s.NextRunTime <= c.ReadSchedules.NextRunTime {
				rows = append(rows, s)
			}
		}
		sort.Slice(rows, func(i, j int) bool {
			if rows[i].NextRunTime != rows[j].NextRunTime {
				return rows[i].NextRunTime < rows[j].NextRunTime
			}
			return rows[i].SortId < rows[j].SortId
		})
		if c.ReadSchedules.Limit >= 0 && len(rows) > c.ReadSchedules.Limit {
			rows = rows[:c.ReadSchedules.Limit]
		}
		res := &t_aio.QuerySchedulesResult{RowsReturned: int64(len(rows))}
		for _, s := range rows {
			res.Records = append(res.Records, s.record("due"))
		}
		return &MResult{Result: &t_aio.Result{Kind: c.Kind, ReadSchedules: res}}, nil

	case t_aio.SearchSchedules:
		cmd := c.SearchSchedules
		var rows []*Schedule
		for _, s := range t.Schedules {
			if cmd.SortId != nil && !(s.SortId < *cmd.SortId) {
				continue
			}
			if !Like(cmd.Id, s.Id) || !tagsMatch(s.Tags, cmd.Tags) {
				continue
			}
			rows = append(rows, s)
		}
		sort.Slice(rows, func(i, j int) bool { return rows[i].SortId > rows[j].SortId })
		if cmd.Limit >= 0 && len(rows) > cmd.Limit {
			rows = rows[:cmd.Limit]
		}
		res := &t_aio.QuerySchedulesResult{RowsReturned: int64(len(rows))}
		for _, s := range rows {
			res.Records = append(res.Records, s.record("search"))
			res.LastSortId = s.SortId
		}
		return &MResult{Result: &t_aio.Result{Kind: c.Kind, SearchSchedules: res}}, nil

	case t_aio.CreateSchedule:
		cmd := c.CreateSchedule
		var n int64
		if _, ok := t.Schedules[cmd.Id]; ok {
			t.SeqSchedules++
		} else {
			t.SeqSchedules++
			t.Schedules[cmd.Id] = &Schedule{
				Id:                  cmd.Id,
				SortId:              t.SeqSchedules,
				Description:         sp(cmd.Description),
				Cron:                cmd.Cron,
				Tags:                mj(cmd.Tags),
				PromiseId:           cmd.PromiseId,
				PromiseTimeout:      cmd.PromiseTimeout,
				PromiseParamHeaders: mj(cmd.PromiseParam.Headers),
				PromiseParamData:    dataPtr(cmd.PromiseParam.Data),
				PromiseTags:         mj(cmd.PromiseTags),
				NextRunTime:         cmd.NextRunTime,
				IdempotencyKey:      keyp(cmd.IdempotencyKey),
				CreatedOn:           cmd.CreatedOn,
			}
			n = 1
		}
		return &MResult{Result: &t_aio.Result{Kind: c.Kind, CreateSchedule: &t_aio.AlterSchedulesResult{RowsAffected: n}}}, nil

	case t_aio.UpdateSchedule:
		cmd := c.UpdateSchedule
		var n int64
		// advance only if the schedule still stands at the occurrence being fired
		if old, ok := t.Schedules[cmd.Id]; ok && cmd.LastRunTime != nil && old.NextRunTime == *cmd.LastRunTime {
			cp := *old
			s := &cp
			t.Schedules[cmd.Id] = s
			s.LastRunTime = ip(s.NextRunTime)
			s.NextRunTime = cmd.NextRunTime
			n = 1
		}
		return &MResult{Result: &t_aio.Result{Kind: c.Kind, UpdateSchedule: &t_aio.AlterSchedulesResult{RowsAffected: n}}}, nil

	case t_aio.DeleteSchedule:
		var n int64
		if _, ok := t.Schedules[c.DeleteSchedule.Id]; ok {
			delete(t.Schedules, c.DeleteSchedule.Id)
			n = 1
		}
		return &MResult{Result: &t_aio.Result{Kind: c.Kind, DeleteSchedule: &t_aio.AlterSchedulesResult{RowsAffected: n}}}, nil

	// ------------------------------------------------------------------- tasks
	case t_aio.ReadTask:
		res := &t_aio.QueryTasksResult{}
		if k, ok := t.Tasks[c.ReadTask.Id]; ok {
			res.RowsReturned = 1
			res.Records = []*task.TaskRecord{k.Record()}
		}
		return &MResult{Result: &t_aio.Result{Kind: c.Kind, ReadTask: res}}, nil

	case t_aio.ReadTasks:
		cmd := c.ReadTasks
		mask := 0
		for _, s := range cmd.States {
			mask |= int(s)
		}
		var rows []*Task
		for _, k := range t.Tasks {
			if k.State&mask != 0 && (k.ExpiresAt <= cmd.Time || k.Timeout <= cmd.Time) {
				rows = append(rows, k)
			}
		}
		sort.Slice(rows, func(i, j int) bool {
			if rows[i].RootPromiseId != rows[j].RootPromiseId {
				return rows[i].RootPromiseId < rows[j].RootPromiseId
			}
			return rows[i].SortId < rows[j].SortId
		})
		if cmd.Limit >= 0 && len(rows) > cmd.Limit {
			rows = rows[:cmd.Limit]
		}
		res := &t_aio.QueryTasksResult{RowsReturned: int64(len(rows))}
		for _, k := range rows {
			res.Records = append(res.Records, k.Record())
		}
		return &MResult{Result: &t_aio.Result{Kind: c.Kind, ReadTasks: res}}, nil

	case t_aio.ReadEnqueueableTasks:
		cmd := c.ReadEnquableTasks
		busy := map[string]bool{}
		byRoot := map[string][]*Task{}
		for _, k := range t.Tasks {
			if k.State == 2 || k.State == 4 {
				busy[k.RootPromiseId] = true
			}
		}
		for _, k := range t.Tasks {
			if k.State == 1 && !busy[k.RootPromiseId] {
				byRoot[k.RootPromiseId] = append(byRoot[k.RootPromiseId], k)
			}
		}
		roots := SortedKeys(byRoot)
		if cmd.Limit >= 0 && len(roots) > cmd.Limit {
			roots = roots[:cmd.Limit]
		}
		oc := &OpenChoice{Kind: "groups"}
		for _, r := range roots {
			ks := byRoot[r]
			sort.Slice(ks, func(i, j int) bool { return ks[i].SortId < ks[j].SortId })
			var g []string
			for _, k := range ks {
				g = append(g, canonTask(k.Record()))
			}
			oc.Groups = append(oc.Groups, g)
		}
		return &MResult{
			Result: &t_aio.Result{Kind: c.Kind, ReadEnqueueableTasks: &t_aio.QueryTasksResult{RowsReturned: int64(len(roots))}},
			Open:   oc,
		}, nil

	case t_aio.CreateTask:
		n := t.createTask(c.CreateTask)
		return &MResult{Result: &t_aio.Result{Kind: c.Kind, CreateTask: &t_aio.AlterTasksResult{RowsAffected: n}}}, nil

	case t_aio.CreateTasks:
		cmd := c.CreateTasks
		var n int64
		for _, id := range SortedKeys(t.Callbacks) {
			cb := t.Callbacks[id]
			if cb.PromiseId != cmd.PromiseId {
				continue
			}
			if _, dup := t.Tasks[cb.Id]; dup {
				return nil, &ErrConstraint{Msg: fmt.Sprintf("task id %q already exists", cb.Id)}
			}
			t.SeqTasks++
			t.Tasks[cb.Id] = &Task{
				Id:            cb.Id,
				SortId:        t.SeqTasks,
				State:         1,
				RootPromiseId: cb.RootPromiseId,
				Recv:          cps(cb.Recv),
				Mesg:          cps(cb.Mesg),
				Timeout:       cb.Timeout,
				Counter:       1,
				CreatedOn:     ip(cmd.CreatedOn),
			}
			n++
		}
		return &MResult{Result: &t_aio.Result{Kind: c.Kind, CreateTasks: &t_aio.AlterTasksResult{RowsAffected: n}}}, nil

	case t_aio.CompleteTasks:
		cmd := c.CompleteTasks
		var n int64
		for id, old := range t.Tasks {
			if old.RootPromiseId == cmd.RootPromiseId && (old.State == 1 || old.State == 2 || old.State == 4) {
				cp := *old
				k := &cp
				t.Tasks[id] = k
				k.State = 8
				k.CompletedOn = ip(cmd.CompletedOn)
				n++
			}
		}
		return &MResult{Result: &t_aio.Result{Kind: c.Kind, CompleteTasks: &t_aio.AlterTasksResult{RowsAffected: n}}}, nil

	case t_aio.UpdateTask:
		cmd := c.UpdateTask
		mask := 0
		for _, s := range cmd.CurrentStates {
			mask |= int(s)
		}
		var n int64
		if old, ok := t.Tasks[cmd.Id]; ok && old.State&mask != 0 && old.Counter == int64(cmd.CurrentCounter) {
			cp := *old
			k := &cp
			t.Tasks[cmd.Id] = k
			k.ProcessId = cps(cmd.ProcessId)
			k.State = int(cmd.State)
			k.Counter = int64(cmd.Counter)
			k.Attempt = int64(cmd.Attempt)
			k.Ttl = int64(cmd.Ttl)
			k.ExpiresAt = cmd.ExpiresAt
			k.CompletedOn = cpi(cmd.CompletedOn)
			n = 1
		}
		return &MResult{Result: &t_aio.Result{Kind: c.Kind, UpdateTask: &t_aio.AlterTasksResult{RowsAffected: n}}}, nil

	case t_aio.HeartbeatTasks:
		cmd := c.HeartbeatTasks
		var n int64
		for id, old := range t.Tasks {
			if old.State == 4 && old.ProcessId != nil && *old.ProcessId == cmd.ProcessId {
				cp := *old
				k := &cp
				t.Tasks[id] = k
				k.ExpiresAt = addSat(cmd.Time, k.Ttl)
				n++
			}
		}
		return &MResult{Result: &t_aio.Result{Kind: c.Kind, HeartbeatTasks: &t_aio.AlterTasksResult{RowsAffected: n}}}, nil

	case t_aio.CreatePromiseAndTask:
		cmd := c.CreatePromiseAndTask
		pn := t.createPromise(cmd.PromiseCommand)
		var tn int64
		if pn == 1 {
			tn = t.createTask(cmd.TaskCommand)
		}
		return &MResult{Result: &t_aio.Result{Kind: c.Kind, CreatePromiseAndTask: &t_aio.AlterPromiseAndTaskResult{PromiseRowsAffected: pn, TaskRowsAffected: tn}}}, nil

	// ------------------------------------------------------------------- locks
	case t_aio.ReadLock:
		res := &t_aio.QueryLocksResult{}
		if l, ok := t.Locks[c.ReadLock.ResourceId]; ok {
			res.RowsReturned = 1
			res.Records = []*lock.LockRecord{{ResourceId: l.ResourceId, ProcessId: l.ProcessId, ExecutionId: l.ExecutionId, Ttl: l.Ttl, ExpiresAt: l.ExpiresAt}}
		}
		return &MResult{Result: &t_aio.Result{Kind: c.Kind, ReadLock: res}}, nil

	case t_aio.AcquireLock:
		cmd := c.AcquireLock
		var n int64
		if l, ok := t.Locks[cmd.ResourceId]; !ok {
			t.Locks[cmd.ResourceId] = &Lock{ResourceId: cmd.ResourceId, ExecutionId: cmd.ExecutionId, ProcessId: cmd.ProcessId, Ttl: cmd.Ttl, ExpiresAt: cmd.ExpiresAt}
			n = 1
		} else if l.ExecutionId == cmd.ExecutionId {
			cp := *l
			l = &cp
			t.Locks[cmd.ResourceId] = l
			l.ProcessId, l.Ttl, l.ExpiresAt = cmd.ProcessId, cmd.Ttl, cmd.ExpiresAt
			n = 1
		}
		return &MResult{Result: &t_aio.Result{Kind: c.Kind, AcquireLock: &t_aio.AlterLocksResult{RowsAffected: n}}}, nil

	case t_aio.ReleaseLock:
		cmd := c.ReleaseLock
		var n int64
		if l, ok := t.Locks[cmd.ResourceId]; ok && l.ExecutionId == cmd.ExecutionId {
			delete(t.Locks, cmd.ResourceId)
			n = 1
		}
		return &MResult{Result: &t_aio.Result{Kind: c.Kind, ReleaseLock: &t_aio.AlterLocksResult{RowsAffected: n}}}, nil

	case t_aio.HeartbeatLocks:
		cmd := c.HeartbeatLocks
		var n int64
		for id, old := range t.Locks {
			if old.ProcessId == cmd.ProcessId {
				cp := *old
				l := &cp
				t.Locks[id] = l
				l.ExpiresAt = addSat(cmd.Time, l.Ttl)
				n++
			}
		}
		return &MResult{Result: &t_aio.Result{Kind: c.Kind, HeartbeatLocks: &t_aio.AlterLocksResult{RowsAffected: n}}}, nil

	case t_aio.TimeoutLocks:
		var n int64
		for _, id := range SortedKeys(t.Locks) {
			if t.Locks[id].ExpiresAt <= c.TimeoutLocks.Timeout {
				delete(t.Locks, id)
				n++
			}
		}
		return &MResult{Result: &t_aio.Result{Kind: c.Kind, TimeoutLocks: &t_aio.AlterLocksResult{RowsAffected: n}}}, nil
	}
	return nil, fmt.Errorf("model: unknown command kind %d", c.Kind)
}

// addSat adds the way the SQL engine does for 64-bit integers: a sum that
// overflows becomes a floating point number, which reads back as the largest
// (smallest) integer.
// AddSat is exported for the lease rules.
func AddSat(a, b int64) int64 { return addSat(a, b) }

func addSat(a, b int64) int64 {
	c := a + b
	if (a > 0 && b > 0 && c < 0) || (a < 0 && b < 0 && c >= 0) {
		if a > 0 {
			return 1<<63 - 1
		}
		return -1 << 63
	}
	return c
}

func dataPtr(b []byte) *string {
	// a nil byte slice is stored as NULL, an empty one as an empty blob
	if b == nil {
		return nil
	}
	s := string(b)
	return &s
}

func (t *Tables) createPromise(cmd *t_aio.CreatePromiseCommand) int64 {
	if _, ok := t.Promises[cmd.Id]; ok {
		// a refused insert still consumes a sort id (AUTOINCREMENT / SERIAL):
		// sort ids are increasing, not dense
		t.SeqPromises++
		return 0
	}
	t.SeqPromises++
	t.Promises[cmd.Id] = &Promise{
		Id:           cmd.Id,
		SortId:       t.SeqPromises,
		State:        1,
		ParamHeaders: mj(cmd.Param.Headers),
		ParamData:    dataPtr(cmd.Param.Data),
		Timeout:      cmd.Timeout,
		IkCreate:     keyp(cmd.IdempotencyKey),
		Tags:         mj(cmd.Tags),
		CreatedOn:    ip(cmd.CreatedOn),
	}
	return 1
}

func (t *Tables) createTask(cmd *t_aio.CreateTaskCommand) int64 {
	if _, ok := t.Tasks[cmd.Id]; ok {
		t.SeqTasks++
		return 0
	}
	t.SeqTasks++
	t.Tasks[cmd.Id] = &Task{
		Id:            cmd.Id,
		SortId:        t.SeqTasks,
		ProcessId:     cps(cmd.ProcessId),
		State:         int(cmd.State),
		RootPromiseId: cmd.Mesg.Root,
		Recv:          dataPtr(cmd.Recv),
		Mesg:          mj(cmd.Mesg),
		Timeout:       cmd.Timeout,
		Counter:       1,
		Ttl:           int64(cmd.Ttl),
		ExpiresAt:     cmd.ExpiresAt,
		CreatedOn:     ip(cmd.CreatedOn),
	}
	return 1
}

func (s *Schedule) record(shape string) *schedule.ScheduleRecord {
	switch shape {
	case "one":
		return &schedule.ScheduleRecord{
			Id: s.Id, Description: S0(s.Description), Cron: s.Cron, Tags: bp(s.Tags), PromiseId: s.PromiseId, PromiseTimeout: s.PromiseTimeout,
			PromiseParamHeaders: bp(s.PromiseParamHeaders), PromiseParamData: bp(s.PromiseParamData), PromiseTags: bp(s.PromiseTags),
			LastRunTime: cpi(s.LastRunTime), NextRunTime: s.NextRunTime, IdempotencyKey: pkey(s.IdempotencyKey), CreatedOn: s.CreatedOn,
		}
	case "due":
		return &schedule.ScheduleRecord{
			Id: s.Id, Cron: s.Cron, PromiseId: s.PromiseId, PromiseTimeout: s.PromiseTimeout,
			PromiseParamHeaders: bp(s.PromiseParamHeaders), PromiseParamData: bp(s.PromiseParamData), PromiseTags: bp(s.PromiseTags),
			LastRunTime: cpi(s.LastRunTime), NextRunTime: s.NextRunTime,
		}
	default: // search
		return &schedule.ScheduleRecord{
			Id: s.Id, Cron: s.Cron, Tags: bp(s.Tags), LastRunTime: cpi(s.LastRunTime), NextRunTime: s.NextRunTime,
			IdempotencyKey: pkey(s.IdempotencyKey), CreatedOn: s.CreatedOn, SortId: s.SortId,
		}
	}
}

func S0(s *string) string {
	if s == nil {
		return ""
	}
	return *s
}

// ------------------------------------------------------------------ canonical
// forms of result rows, used to compare model and implementation

func bs(b []byte) string {
	if b == nil {
		return "<nil>"
	}
	return fmt.Sprintf("%q", string(b))
}

func ks(k *idempotency.Key) string {
	if k == nil {
		return "<nil>"
	}
	return fmt.Sprintf("%q", string(*k))
}

func canonPromise(r *promise.PromiseRecord) string {
	return fmt.Sprintf("P{%q %d %s %s %s %s %d %s %s %s %s %s sort=%d}", r.Id, r.State, bs(r.ParamHeaders), bs(r.ParamData), bs(r.ValueHeaders), bs(r.ValueData),
		r.Timeout, ks(r.IdempotencyKeyForCreate), ks(r.IdempotencyKeyForComplete), I(r.CreatedOn), I(r.CompletedOn), bs(r.Tags), r.SortId)
}

func canonTask(r *task.TaskRecord) string {
	return fmt.Sprintf("T{%q %s %d %q %s %s %d %d %d %d %d %s %s}", r.Id, S(r.ProcessId), r.State, r.RootPromiseId, bs(r.Recv), bs(r.Mesg), r.Timeout, r.Counter, r.Attempt, r.Ttl, r.ExpiresAt, I(r.CreatedOn), I(r.CompletedOn))
}

func canonSchedule(r *schedule.ScheduleRecord) string {
	return fmt.Sprintf("S{%q %q %q %s %q %d %s %s %s %s %d %s %d sort=%d}", r.Id, r.Description, r.Cron, bs(r.Tags), r.PromiseId, r.PromiseTimeout, bs(r.PromiseParamHeaders), bs(r.PromiseParamData), bs(r.PromiseTags),
		I(r.LastRunTime), r.NextRunTime, ks(r.IdempotencyKey), r.CreatedOn, r.SortId)
}

func canonLock(r *lock.LockRecord) string {
	return fmt.Sprintf("L{%q %q %q %d %d}", r.ResourceId, r.ProcessId, r.ExecutionId, r.Ttl, r.ExpiresAt)
}

// Canon renders an implementation result as (header, rows).
func Canon(r *t_aio.Result) (string, []string) {
	var rows []string
	qp := func(q *t_aio.QueryPromisesResult) string {
		for _, x := range q.Records {
			rows = append(rows, canonPromise(x))
		}
		return fmt.Sprintf("rows=%d last=%d", q.RowsReturned, q.LastSortId)
	}
	qs := func(q *t_aio.QuerySchedulesResult) string {
		for _, x := range q.Records {
			rows = append(rows, canonSchedule(x))
		}
		return fmt.Sprintf("rows=%d last=%d", q.RowsReturned, q.LastSortId)
	}
	qt := func(q *t_aio.QueryTasksResult) string {
		for _, x := range q.Records {
			rows = append(rows, canonTask(x))
		}
		return fmt.Sprintf("rows=%d", q.RowsReturned)
	}
	var h string
	switch r.Kind {
	case t_aio.ReadPromise:
		h = qp(r.ReadPromise)
	case t_aio.ReadPromises:
		h = qp(r.ReadPromises)
	case t_aio.SearchPromises:
		h = qp(r.SearchPromises)
	case t_aio.CreatePromise:
		h = fmt.Sprintf("affected=%d", r.CreatePromise.RowsAffected)
	case t_aio.UpdatePromise:
		h = fmt.Sprintf("affected=%d", r.UpdatePromise.RowsAffected)
	case t_aio.CreateCallback:
		h = fmt.Sprintf("affected=%d", r.CreateCallback.RowsAffected)
	case t_aio.DeleteCallbacks:
		h = fmt.Sprintf("affected=%d", r.DeleteCallbacks.RowsAffected)
	case t_aio.ReadSchedule:
		h = qs(r.ReadSchedule)
	case t_aio.ReadSchedules:
		h = qs(r.ReadSchedules)
	case t_aio.SearchSchedules:
		h = qs(r.SearchSchedules)
	case t_aio.CreateSchedule:
		h = fmt.Sprintf("affected=%d", r.CreateSchedule.RowsAffected)
	case t_aio.UpdateSchedule:
		h = fmt.Sprintf("affected=%d", r.UpdateSchedule.RowsAffected)
	case t_aio.DeleteSchedule:
		h = fmt.Sprintf("affected=%d", r.DeleteSchedule.RowsAffected)
	case t_aio.ReadTask:
		h = qt(r.ReadTask)
	case t_aio.ReadTasks:
		h = qt(r.ReadTasks)
	case t_aio.ReadEnqueueableTasks:
		h = qt(r.ReadEnqueueableTasks)
	case t_aio.CreateTask:
		h = fmt.Sprintf("affected=%d", r.CreateTask.RowsAffected)
	case t_aio.CreateTasks:
		h = fmt.Sprintf("affected=%d", r.CreateTasks.RowsAffected)
	case t_aio.CompleteTasks:
		h = fmt.Sprintf("affected=%d", r.CompleteTasks.RowsAffected)
	case t_aio.UpdateTask:
		h = fmt.Sprintf("affected=%d", r.UpdateTask.RowsAffected)
	case t_aio.HeartbeatTasks:
		h = fmt.Sprintf("affected=%d", r.HeartbeatTasks.RowsAffected)
	case t_aio.CreatePromiseAndTask:
		h = fmt.Sprintf("affected=%d/%d", r.CreatePromiseAndTask.PromiseRowsAffected, r.CreatePromiseAndTask.TaskRowsAffected)
	case t_aio.ReadLock:
		for _, x := range r.ReadLock.Records {
			rows = append(rows, canonLock(x))
		}
		h = fmt.Sprintf("rows=%d", r.ReadLock.RowsReturned)
	case t_aio.AcquireLock:
		h = fmt.Sprintf("affected=%d", r.AcquireLock.RowsAffected)
	case t_aio.ReleaseLock:
		h = fmt.Sprintf("affected=%d", r.ReleaseLock.RowsAffected)
	case t_aio.HeartbeatLocks:
		h = fmt.Sprintf("affected=%d", r.HeartbeatLocks.RowsAffected)
	case t_aio.TimeoutLocks:
		h = fmt.Sprintf("affected=%d", r.TimeoutLocks.RowsAffected)
	default:
		h = "?"
	}
	return r.Kind.String() + " " + h, rows
}

// Compare checks an implementation result against the model result; it
// returns "" when they agree.
func Compare(m *MResult, got *t_aio.Result) string {
	if got == nil {
		return "implementation returned no result"
	}
	if got.Kind != m.Result.Kind {
		return fmt.Sprintf("result kind %s, expected %s", got.Kind, m.Result.Kind)
	}
	gh, grows := Canon(got)
	if m.Open == nil {
		mh, mrows := Canon(m.Result)
		if gh != mh {
			return fmt.Sprintf("got %s, expected %s", gh, mh)
		}
		if len(grows) != len(mrows) {
			return fmt.Sprintf("%s: got %d rows, expected %d", gh, len(grows), len(mrows))
		}
		for i := range grows {
			if grows[i] != mrows[i] {
				return fmt.Sprintf("%s: row %d: got %s, expected %s", gh, i, grows[i], mrows[i])
			}
		}
		return ""
	}
	switch m.Open.Kind {
	case "subset":
		var rr int64
		var last int64
		switch got.Kind {
		case t_aio.ReadPromises:
			rr = got.ReadPromises.RowsReturned
			last = got.ReadPromises.LastSortId
			if n := len(got.ReadPromises.Records); n > 0 && last != got.ReadPromises.Records[n-1].SortId {
				return fmt.Sprintf("%s: last sort id %d is not the last record's", gh, last)
			}
		}
		if int(rr) != m.Open.N || len(grows) != m.Open.N {
			return fmt.Sprintf("%s: got %d rows (%d records), expected %d of %d candidates", gh, rr, len(grows), m.Open.N, len(m.Open.Candidates))
		}
		cand := map[string]int{}
		for _, c := range m.Open.Candidates {
			cand[c]++
		}
		for _, g := range grows {
			if cand[g] == 0 {
				return fmt.Sprintf("%s: row %s is not among the %d matching rows (or returned twice)", gh, g, len(m.Open.Candidates))
			}
			cand[g]--
		}
		return ""
	case "groups":
		q := got.ReadEnqueueableTasks
		if int(q.RowsReturned) != len(m.Open.Groups) || len(grows) != len(m.Open.Groups) {
			return fmt.Sprintf("%s: got %d rows, expected one for each of %d dispatchable roots", gh, q.RowsReturned, len(m.Open.Groups))
		}
		for i, g := range grows {
			ok := false
			for _, c := range m.Open.Groups[i] {
				if c == g {
					ok = true
				}
			}
			if !ok {
				return fmt.Sprintf("%s: row %d %s is not an init task of the expected root (candidates %v)", gh, i, g, m.Open.Groups[i])
			}
		}
		return ""
	}
	return "model: bad open choice"
}
