// Package tables holds the harness-side view of the five SQL tables: row
// types, snapshots read through an observer connection, comparison, and an
// in-memory reference implementation of the store commands (model.go).
package tables

import (
	"database/sql"
	"fmt"
	"sort"
	"strings"
)

type Promise struct {
	Id           string
	SortId       int64
	State        int
	ParamHeaders *string
	ParamData    *string
	ValueHeaders *string
	ValueData    *string
	Timeout      int64
	IkCreate     *string
	IkComplete   *string
	Tags         *string
	CreatedOn    *int64
	CompletedOn  *int64
}

type Callback struct {
	Id            string
	PromiseId     string
	RootPromiseId string
	Recv          *string
	Mesg          *string
	Timeout       int64
	CreatedOn     int64
}

type Schedule struct {
	Id                  string
	SortId              int64
	Description         *string
	Cron                string
	Tags                *string
	PromiseId           string
	PromiseTimeout      int64
	PromiseParamHeaders *string
	PromiseParamData    *string
	PromiseTags         *string
	LastRunTime         *int64
	NextRunTime         int64
	IdempotencyKey      *string
	CreatedOn           int64
}

type Lock struct {
	ResourceId  string
	ExecutionId string
	ProcessId   string
	Ttl         int64
	ExpiresAt   int64
}

type Task struct {
	Id            string
	SortId        int64
	ProcessId     *string
	State         int
	RootPromiseId string
	Recv          *string
	Mesg          *string
	Timeout       int64
	Counter       int64
	Attempt       int64
	Ttl           int64
	ExpiresAt     int64
	CreatedOn     *int64
	CompletedOn   *int64
}

// Tables is one consistent state of the database.
type Tables struct {
	Promises  map[string]*Promise
	Callbacks map[string]*Callback
	Schedules map[string]*Schedule
	Locks     map[string]*Lock
	Tasks     map[string]*Task
	// highest sort ids ever handed out (AUTOINCREMENT / SERIAL)
	SeqPromises, SeqSchedules, SeqTasks int64
}

func New() *Tables {
	return &Tables{
		Promises:  map[string]*Promise{},
		Callbacks: map[string]*Callback{},
		Schedules: map[string]*Schedule{},
		Locks:     map[string]*Lock{},
		Tasks:     map[string]*Task{},
	}
}

func cps(s *string) *string {
	if s == nil {
		return nil
	}
	v := *s
	return &v
}

func cpi(s *int64) *int64 {
	if s == nil {
		return nil
	}
	v := *s
	return &v
}

func (t *Tables) Clone() *Tables {
	n := New()
	for k, v := range t.Promises {
		c := *v
		n.Promises[k] = &c
	}
	for k, v := range t.Callbacks {
		c := *v
		n.Callbacks[k] = &c
	}
	for k, v := range t.Schedules {
		c := *v
		n.Schedules[k] = &c
	}
	for k, v := range t.Locks {
		c := *v
		n.Locks[k] = &c
	}
	for k, v := range t.Tasks {
		c := *v
		n.Tasks[k] = &c
	}
	n.SeqPromises, n.SeqSchedules, n.SeqTasks = t.SeqPromises, t.SeqSchedules, t.SeqTasks
	return n
}

func S(s *string) string {
	if s == nil {
		return "<nil>"
	}
	return *s
}

func I(s *int64) string {
	if s == nil {
		return "<nil>"
	}
	return fmt.Sprint(*s)
}

func EqS(a, b *string) bool {
	if a == nil || b == nil {
		return a == nil && b == nil
	}
	return *a == *b
}

func EqI(a, b *int64) bool {
	if a == nil || b == nil {
		return a == nil && b == nil
	}
	return *a == *b
}

func (p *Promise) String() string {
	return fmt.Sprintf("promise{id=%q sort=%d state=%d ph=%s pd=%q vh=%s vd=%q timeout=%d ikc=%s iku=%s tags=%s created=%s completed=%s}",
		p.Id, p.SortId, p.State, S(p.ParamHeaders), S(p.ParamData), S(p.ValueHeaders), S(p.ValueData), p.Timeout, S(p.IkCreate), S(p.IkComplete), S(p.Tags), I(p.CreatedOn), I(p.CompletedOn))
}

func (c *Callback) String() string {
	return fmt.Sprintf("callback{id=%q promise=%q root=%q recv=%s mesg=%s timeout=%d created=%d}", c.Id, c.PromiseId, c.RootPromiseId, S(c.Recv), S(c.Mesg), c.Timeout, c.CreatedOn)
}

func (s *Schedule) String() string {
	return fmt.Sprintf("schedule{id=%q sort=%d desc=%s cron=%q tags=%s pid=%q pto=%d pph=%s ppd=%q ptags=%s last=%s next=%d ik=%s created=%d}",
		s.Id, s.SortId, S(s.Description), s.Cron, S(s.Tags), s.PromiseId, s.PromiseTimeout, S(s.PromiseParamHeaders), S(s.PromiseParamData), S(s.PromiseTags), I(s.LastRunTime), s.NextRunTime, S(s.IdempotencyKey), s.CreatedOn)
}

func (l *Lock) String() string {
	return fmt.Sprintf("lock{res=%q exec=%q proc=%q ttl=%d exp=%d}", l.ResourceId, l.ExecutionId, l.ProcessId, l.Ttl, l.ExpiresAt)
}

func (t *Task) String() string {
	return fmt.Sprintf("task{id=%q sort=%d proc=%s state=%d root=%q recv=%s mesg=%s timeout=%d counter=%d attempt=%d ttl=%d exp=%d created=%s completed=%s}",
		t.Id, t.SortId, S(t.ProcessId), t.State, t.RootPromiseId, S(t.Recv), S(t.Mesg), t.Timeout, t.Counter, t.Attempt, t.Ttl, t.ExpiresAt, I(t.CreatedOn), I(t.CompletedOn))
}

func SortedKeys[V any](m map[string]V) []string {
	ks := make([]string, 0, len(m))
	for k := range m {
		ks = append(ks, k)
	}
	sort.Strings(ks)
	return ks
}

// Diff lists the differences between two states (empty when equal).
// ignoreSeq skips the autoincrement counters.
func Diff(a, b *Tables, ignoreSeq bool) []string {
	var out []string
	diffMap(&out, "promises", a.Promises, b.Promises)
	diffMap(&out, "callbacks", a.Callbacks, b.Callbacks)
	diffMap(&out, "schedules", a.Schedules, b.Schedules)
	diffMap(&out, "locks", a.Locks, b.Locks)
	diffMap(&out, "tasks", a.Tasks, b.Tasks)
	if !ignoreSeq {
		if a.SeqPromises != b.SeqPromises || a.SeqSchedules != b.SeqSchedules || a.SeqTasks != b.SeqTasks {
			out = append(out, fmt.Sprintf("seq: (%d,%d,%d) vs (%d,%d,%d)", a.SeqPromises, a.SeqSchedules, a.SeqTasks, b.SeqPromises, b.SeqSchedules, b.SeqTasks))
		}
	}
	return out
}

type row[V any] interface {
	fmt.Stringer
	Eq(V) bool
}

func diffMap[V row[V]](out *[]string, name string, a, b map[string]V) {
	var ks []string
	for k, av := range a {
		bv, ok := b[k]
		if !ok || !av.Eq(bv) {
			ks = append(ks, k)
		}
	}
	sort.Strings(ks)
	for _, k := range ks {
		bv, ok := b[k]
		if !ok {
			*out = append(*out, fmt.Sprintf("%s[%q]: only left: %s", name, k, a[k]))
			continue
		}
		*out = append(*out, fmt.Sprintf("%s[%q]: %s != %s", name, k, a[k], bv))
	}
	ks = ks[:0]
	for k := range b {
		if _, ok := a[k]; !ok {
			ks = append(ks, k)
		}
	}
	sort.Strings(ks)
	for _, k := range ks {
		*out = append(*out, fmt.Sprintf("%s[%q]: only right: %s", name, k, b[k]))
	}
}

func (p *Promise) Eq(q *Promise) bool {
	return p.Id == q.Id && p.SortId == q.SortId && p.State == q.State && EqS(p.ParamHeaders, q.ParamHeaders) && EqS(p.ParamData, q.ParamData) &&
		EqS(p.ValueHeaders, q.ValueHeaders) && EqS(p.ValueData, q.ValueData) && p.Timeout == q.Timeout && EqS(p.IkCreate, q.IkCreate) && EqS(p.IkComplete, q.IkComplete) &&
		EqS(p.Tags, q.Tags) && EqI(p.CreatedOn, q.CreatedOn) && EqI(p.CompletedOn, q.CompletedOn)
}

// CreationEq compares the columns fixed at creation.
func (p *Promise) CreationEq(q *Promise) bool {
	return p.Id == q.Id && p.SortId == q.SortId && EqS(p.ParamHeaders, q.ParamHeaders) && EqS(p.ParamData, q.ParamData) && p.Timeout == q.Timeout &&
		EqS(p.IkCreate, q.IkCreate) && EqS(p.Tags, q.Tags) && EqI(p.CreatedOn, q.CreatedOn)
}

func (c *Callback) Eq(d *Callback) bool {
	return c.Id == d.Id && c.PromiseId == d.PromiseId && c.RootPromiseId == d.RootPromiseId && EqS(c.Recv, d.Recv) && EqS(c.Mesg, d.Mesg) && c.Timeout == d.Timeout && c.CreatedOn == d.CreatedOn
}

func (s *Schedule) Eq(t *Schedule) bool {
	return s.Id == t.Id && s.SortId == t.SortId && EqS(s.Description, t.Description) && s.Cron == t.Cron && EqS(s.Tags, t.Tags) && s.PromiseId == t.PromiseId && s.PromiseTimeout == t.PromiseTimeout &&
		EqS(s.PromiseParamHeaders, t.PromiseParamHeaders) && EqS(s.PromiseParamData, t.PromiseParamData) && EqS(s.PromiseTags, t.PromiseTags) && EqI(s.LastRunTime, t.LastRunTime) &&
		s.NextRunTime == t.NextRunTime && EqS(s.IdempotencyKey, t.IdempotencyKey) && s.CreatedOn == t.CreatedOn
}

func (l *Lock) Eq(m *Lock) bool { return *l == *m }

func (t *Task) Eq(u *Task) bool {
	return t.Id == u.Id && t.SortId == u.SortId && EqS(t.ProcessId, u.ProcessId) && t.State == u.State && t.RootPromiseId == u.RootPromiseId && EqS(t.Recv, u.Recv) && EqS(t.Mesg, u.Mesg) &&
		t.Timeout == u.Timeout && t.Counter == u.Counter && t.Attempt == u.Attempt && t.Ttl == u.Ttl && t.ExpiresAt == u.ExpiresAt && EqI(t.CreatedOn, u.CreatedOn) && EqI(t.CompletedOn, u.CompletedOn)
}

// Fingerprint is a short abstract description of the state (for coverage).
func (t *Tables) Fingerprint() string {
	var sb strings.Builder
	pc := map[int]int{}
	for _, p := range t.Promises {
		pc[p.State]++
	}
	tc := map[int]int{}
	for _, x := range t.Tasks {
		tc[x.State]++
	}
	fmt.Fprintf(&sb, "p%v c%d s%d l%d t%v", sortedInt(pc), len(t.Callbacks), len(t.Schedules), len(t.Locks), sortedInt(tc))
	return sb.String()
}

func sortedInt(m map[int]int) string {
	ks := []int{}
	for k := range m {
		ks = append(ks, k)
	}
	sort.Ints(ks)
	var sb strings.Builder
	for _, k := range ks {
		fmt.Fprintf(&sb, "%d:%d,", k, m[k])
	}
	return sb.String()
}

func ns(v sql.NullString) *string {
	if !v.Valid {
		return nil
	}
	s := v.String
	return &s
}

func ni(v sql.NullInt64) *int64 {
	if !v.Valid {
		return nil
	}
	i := v.Int64
	return &i
}

// Load reads a full snapshot. The caller guarantees no writer is active (or
// that reading the last committed state is what is wanted).
func Load(db *sql.DB) (*Tables, error) {
	t := New()
	tx, err := db.Begin()
	if err != nil {
		return nil, err
	}
	defer tx.Rollback() //nolint

	rows, err := tx.Query(`SELECT id, sort_id, state, param_headers, param_data, value_headers, value_data, timeout, idempotency_key_for_create, idempotency_key_for_complete, tags, created_on, completed_on FROM promises`)
	if err != nil {
		return nil, err
	}
	for rows.Next() {
		p := &Promise{}
		var id, ph, pd, vh, vd, ikc, iku, tags sql.NullString
		var state, timeout, co, cm sql.NullInt64
		if err := rows.Scan(&id, &p.SortId, &state, &ph, &pd, &vh, &vd, &timeout, &ikc, &iku, &tags, &co, &cm); err != nil {
			rows.Close()
			return nil, err
		}
		p.Id, p.State, p.Timeout = id.String, int(state.Int64), timeout.Int64
		p.ParamHeaders, p.ParamData, p.ValueHeaders, p.ValueData = ns(ph), ns(pd), ns(vh), ns(vd)
		p.IkCreate, p.IkComplete, p.Tags, p.CreatedOn, p.CompletedOn = ns(ikc), ns(iku), ns(tags), ni(co), ni(cm)
		t.Promises[p.Id] = p
	}
	rows.Close()

	rows, err = tx.Query(`SELECT id, promise_id, root_promise_id, recv, mesg, timeout, created_on FROM callbacks`)
	if err != nil {
		return nil, err
	}
	for rows.Next() {
		c := &Callback{}
		var id, pid, rid, recv, mesg sql.NullString
		var timeout, co sql.NullInt64
		if err := rows.Scan(&id, &pid, &rid, &recv, &mesg, &timeout, &co); err != nil {
			rows.Close()
			return nil, err
		}
		c.Id, c.PromiseId, c.RootPromiseId, c.Recv, c.Mesg, c.Timeout, c.CreatedOn = id.String, pid.String, rid.String, ns(recv), ns(mesg), timeout.Int64, co.Int64
		t.Callbacks[c.Id] = c
	}
	rows.Close()

	rows, err = tx.Query(`SELECT id, sort_id, description, cron, tags, promise_id, promise_timeout, promise_param_headers, promise_param_data, promise_tags, last_run_time, next_run_time, idempotency_key, created_on FROM schedules`)
	if err != nil {
		return nil, err
	}
	for rows.Next() {
		s := &Schedule{}
		var id, desc, cron, tags, pid, pph, ppd, ptags, ik sql.NullString
		var pto, last, next, co sql.NullInt64
		if err := rows.Scan(&id, &s.SortId, &desc, &cron, &tags, &pid, &pto, &pph, &ppd, &ptags, &last, &next, &ik, &co); err != nil {
			rows.Close()
			return nil, err
		}
		s.Id, s.Description, s.Cron, s.Tags, s.PromiseId, s.PromiseTimeout = id.String, ns(desc), cron.String, ns(tags), pid.String, pto.Int64
		s.PromiseParamHeaders, s.PromiseParamData, s.PromiseTags, s.LastRunTime, s.NextRunTime, s.IdempotencyKey, s.CreatedOn = ns(pph), ns(ppd), ns(ptags), ni(last), next.Int64, ns(ik), co.Int64
		t.Schedules[s.Id] = s
	}
	rows.Close()

	rows, err = tx.Query(`SELECT resource_id, execution_id, process_id, ttl, CAST(expires_at AS INTEGER) FROM locks`)
	if err != nil {
		return nil, err
	}
	for rows.Next() {
		l := &Lock{}
		var rid, eid, pid sql.NullString
		var ttl, exp sql.NullInt64
		if err := rows.Scan(&rid, &eid, &pid, &ttl, &exp); err != nil {
			rows.Close()
			return nil, err
		}
		l.ResourceId, l.ExecutionId, l.ProcessId, l.Ttl, l.ExpiresAt = rid.String, eid.String, pid.String, ttl.Int64, exp.Int64
		t.Locks[l.ResourceId] = l
	}
	rows.Close()

	rows, err = tx.Query(`SELECT id, sort_id, process_id, state, root_promise_id, recv, mesg, timeout, counter, attempt, ttl, CAST(expires_at AS INTEGER), created_on, completed_on FROM tasks`)
	if err != nil {
		return nil, err
	}
	for rows.Next() {
		k := &Task{}
		var id, pid, rid, recv, mesg sql.NullString
		var state, timeout, counter, attempt, ttl, exp, co, cm sql.NullInt64
		if err := rows.Scan(&id, &k.SortId, &pid, &state, &rid, &recv, &mesg, &timeout, &counter, &attempt, &ttl, &exp, &co, &cm); err != nil {
			rows.Close()
			return nil, err
		}
		k.Id, k.ProcessId, k.State, k.RootPromiseId, k.Recv, k.Mesg = id.String, ns(pid), int(state.Int64), rid.String, ns(recv), ns(mesg)
		k.Timeout, k.Counter, k.Attempt, k.Ttl, k.ExpiresAt, k.CreatedOn, k.CompletedOn = timeout.Int64, counter.Int64, attempt.Int64, ttl.Int64, exp.Int64, ni(co), ni(cm)
		t.Tasks[k.Id] = k
	}
	rows.Close()

	rows, err = tx.Query(`SELECT name, seq FROM sqlite_sequence`)
	if err == nil {
		for rows.Next() {
			var name string
			var seq int64
			if err := rows.Scan(&name, &seq); err != nil {
				rows.Close()
				return nil, err
			}
			switch name {
			case "promises":
				t.SeqPromises = seq
			case "schedules":
				t.SeqSchedules = seq
			case "tasks":
				t.SeqTasks = seq
			}
		}
		rows.Close()
	}
	return t, nil
}
