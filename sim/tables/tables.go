// Package tables holds the harness-side view of the five SQL tables: row
// types, snapshots read through an observer connection, comparison, and an
// in-memory reference implementation of the store commands (model.go).
package tables

import (
	"database/sql"
	"fmt"
	"sort"
	"strings"
)

type Promise struct {
	Id           string
	SortId       int64
	State        int
	ParamHeaders *string
	ParamData    *string
	ValueHeaders *string
	ValueData    *string
	Timeout      int64
	IkCreate     *string
	IkComplete   *string
	Tags         *string
	CreatedOn    *int64
	CompletedOn  *int64
}

type Callback struct {
	Id            string
	PromiseId     string
	RootPromiseId string
	Recv          *string
	Mesg          *string
	Timeout       int64
	CreatedOn     int64
}

type Schedule struct {
	Id                  string
	SortId              int64
	Description         *string
	Cron                string
	Tags                *string
	PromiseId           string
	PromiseTimeout      int64
	PromiseParamHeaders *string
	PromiseParamData    *string
	PromiseTags         *string
	LastRunTime         *int64
	NextRunTime         int64
	IdempotencyKey      *string
	CreatedOn           int64
}

type Lock struct {
	ResourceId  string
	ExecutionId string
	ProcessId   string
	Ttl         int64
	ExpiresAt   int64
}

type Task struct {
	Id            string
	SortId        int64
	ProcessId     *string
	State         int
	RootPromiseId string
	Recv          *string
	Mesg          *string
	Timeout       int64
	Counter       int64
	Attempt       int64
	Ttl           int64
	ExpiresAt     int64
	CreatedOn     *int64
	CompletedOn   *int64
}

// Tables is one consistent state of the database.
type Tables struct {
	Promises  map[string]*Promise
	Callbacks map[string]*Callback
	Schedules map[string]*Schedule
	Locks     map[string]*Lock
	Tasks     map[string]*Task
	// highest sort ids ever handed out (AUTOINCREMENT / SERIAL)
	SeqPromises, SeqSchedules, SeqTasks int64
	// rowid -> key, per table (snapshots only; used to apply row changes)
	idx map[string]map[int64]string
}

func New() *Tables {
	return &Tables{
		Promises:  map[string]*Promise{},
		Callbacks: map[string]*Callback{},
		Schedules: map[string]*Schedule{},
		Locks:     map[string]*Lock{},
		Tasks:     map[string]*Task{},
	}
}

func cps(s *string) *string {
	if s == nil {
		return nil
	}
	v := *s
	return &v
}

func cpi(s *int64) *int64 {
	if s == nil {
		return nil
	}
	v := *s
	return &v
}

// Clone copies the tables; rows are shared (every mutation in this package
// replaces a row by a modified copy, rows themselves are never written to).
func (t *Tables) Clone() *Tables {
	n := &Tables{
		Promises:  make(map[string]*Promise, len(t.Promises)),
		Callbacks: make(map[string]*Callback, len(t.Callbacks)),
		Schedules: make(map[string]*Schedule, len(t.Schedules)),
		Locks:     make(map[string]*Lock, len(t.Locks)),
		Tasks:     make(map[string]*Task, len(t.Tasks)),
	}
	for k, v := range t.Promises {
		n.Promises[k] = v
	}
	for k, v := range t.Callbacks {
		n.Callbacks[k] = v
	}
	for k, v := range t.Schedules {
		n.Schedules[k] = v
	}
	for k, v := range t.Locks {
		n.Locks[k] = v
	}
	for k, v := range t.Tasks {
		n.Tasks[k] = v
	}
	n.SeqPromises, n.SeqSchedules, n.SeqTasks = t.SeqPromises, t.SeqSchedules, t.SeqTasks
	return n
}

func S(s *string) string {
	if s == nil {
		return "<nil>"
	}
	return *s
}

func I(s *int64) string {
	if s == nil {
		return "<nil>"
	}
	return fmt.Sprint(*s)
}

func EqS(a, b *string) bool {
	if a == nil || b == nil {
		return a == nil && b == nil
	}
	return *a == *b
}

func EqI(a, b *int64) bool {
	if a == nil || b == nil {
		return a == nil && b == nil
	}
	return *a == *b
}

func (p *Promise) String() string {
	return fmt.Sprintf("promise{id=%q sort=%d state=%d ph=%s pd=%q vh=%s vd=%q timeout=%d ikc=%s iku=%s tags=%s created=%s completed=%s}",
		p.Id, p.SortId, p.State, S(p.ParamHeaders), S(p.ParamData), S(p.ValueHeaders), S(p.ValueData), p.Timeout, S(p.IkCreate), S(p.IkComplete), S(p.Tags), I(p.CreatedOn), I(p.CompletedOn))
}

func (c *Callback) String() string {
	return fmt.Sprintf("callback{id=%q promise=%q root=%q recv=%s mesg=%s timeout=%d created=%d}", c.Id, c.PromiseId, c.RootPromiseId, S(c.Recv), S(c.Mesg), c.Timeout, c.CreatedOn)
}

func (s *Schedule) String() string {
	return fmt.Sprintf("schedule{id=%q sort=%d desc=%s cron=%q tags=%s pid=%q pto=%d pph=%s ppd=%q ptags=%s last=%s next=%d ik=%s created=%d}",
		s.Id, s.SortId, S(s.Description), s.Cron, S(s.Tags), s.PromiseId, s.PromiseTimeout, S(s.PromiseParamHeaders), S(s.PromiseParamData), S(s.PromiseTags), I(s.LastRunTime), s.NextRunTime, S(s.IdempotencyKey), s.CreatedOn)
}

func (l *Lock) String() string {
	return fmt.Sprintf("lock{res=%q exec=%q proc=%q ttl=%d exp=%d}", l.ResourceId, l.ExecutionId, l.ProcessId, l.Ttl, l.ExpiresAt)
}

func (t *Task) String() string {
	return fmt.Sprintf("task{id=%q sort=%d proc=%s state=%d root=%q recv=%s mesg=%s timeout=%d counter=%d attempt=%d ttl=%d exp=%d created=%s completed=%s}",
		t.Id, t.SortId, S(t.ProcessId), t.State, t.RootPromiseId, S(t.Recv), S(t.Mesg), t.Timeout, t.Counter, t.Attempt, t.Ttl, t.ExpiresAt, I(t.CreatedOn), I(t.CompletedOn))
}

func SortedKeys[V any](m map[string]V) []string {
	ks := make([]string, 0, len(m))
	for k := range m {
		ks = append(ks, k)
	}
	sort.Strings(ks)
	return ks
}

// Diff lists the differences between two states (empty when equal).
// ignoreSeq skips the autoincrement counters.
func Diff(a, b *Tables, ignoreSeq bool) []string {
	var out []string
	diffMap(&out, "promises", a.Promises, b.Promises)
	diffMap(&out, "callbacks", a.Callbacks, b.Callbacks)
	diffMap(&out, "schedules", a.Schedules, b.Schedules)
	diffMap(&out, "locks", a.Locks, b.Locks)
	diffMap(&out, "tasks", a.Tasks, b.Tasks)
	if !ignoreSeq {
		if a.SeqPromises != b.SeqPromises || a.SeqSchedules != b.SeqSchedules || a.SeqTasks != b.SeqTasks {
			out = append(out, fmt.Sprintf("seq: (%d,%d,%d) vs (%d,%d,%d)", a.SeqPromises, a.SeqSchedules, a.SeqTasks, b.SeqPromises, b.SeqSchedules, b.SeqTasks))
		}
	}
	return out
}

type row[V any] interface {
	fmt.Stringer
	Eq(V) bool
}

func diffMap[V row[V]](out *[]string, name string, a, b map[string]V) {
	var ks []string
	for k, av := range a {
		bv, ok := b[k]
		if !ok || !av.Eq(bv) {
			ks = append(ks, k)
		}
	}
	sort.Strings(ks)
	for _, k := range ks {
		bv, ok := b[k]
		if !ok {
			*out = append(*out, fmt.Sprintf("%s[%q]: only left: %s", name, k, a[k]))
			continue
		}
		*out = append(*out, fmt.Sprintf("%s[%q]: %s != %s", name, k, a[k], bv))
	}
	ks = ks[:0]
	for k := range b {
		if _, ok := a[k]; !ok {
			ks = append(ks, k)
		}
	}
	sort.Strings(ks)
	for _, k := range ks {
		*out = append(*out, fmt.Sprintf("%s[%q]: only right: %s", name, k, b[k]))
	}
}

func (p *Promise) Eq(q *Promise) bool {
	return p.Id == q.Id && p.SortId == q.SortId && p.State == q.State && EqS(p.ParamHeaders, q.ParamHeaders) && EqS(p.ParamData, q.ParamData) &&
		EqS(p.ValueHeaders, q.ValueHeaders) && EqS(p.ValueData, q.ValueData) && p.Timeout == q.Timeout && EqS(p.IkCreate, q.IkCreate) && EqS(p.IkComplete, q.IkComplete) &&
		EqS(p.Tags, q.Tags) && EqI(p.CreatedOn, q.CreatedOn) && EqI(p.CompletedOn, q.CompletedOn)
}

// CreationEq compares the columns fixed at creation.
func (p *Promise) CreationEq(q *Promise) bool {
	return p.Id == q.Id && p.SortId == q.SortId && EqS(p.ParamHeaders, q.ParamHeaders) && EqS(p.ParamData, q.ParamData) && p.Timeout == q.Timeout &&
		EqS(p.IkCreate, q.IkCreate) && EqS(p.Tags, q.Tags) && EqI(p.CreatedOn, q.CreatedOn)
}

func (c *Callback) Eq(d *Callback) bool {
	return c.Id == d.Id && c.PromiseId == d.PromiseId && c.RootPromiseId == d.RootPromiseId && EqS(c.Recv, d.Recv) && EqS(c.Mesg, d.Mesg) && c.Timeout == d.Timeout && c.CreatedOn == d.CreatedOn
}

func (s *Schedule) Eq(t *Schedule) bool {
	return s.Id == t.Id && s.SortId == t.SortId && EqS(s.Description, t.Description) && s.Cron == t.Cron && EqS(s.Tags, t.Tags) && s.PromiseId == t.PromiseId && s.PromiseTimeout == t.PromiseTimeout &&
		EqS(s.PromiseParamHeaders, t.PromiseParamHeaders) && EqS(s.PromiseParamData, t.PromiseParamData) && EqS(s.PromiseTags, t.PromiseTags) && EqI(s.LastRunTime, t.LastRunTime) &&
		s.NextRunTime == t.NextRunTime && EqS(s.IdempotencyKey, t.IdempotencyKey) && s.CreatedOn == t.CreatedOn
}

func (l *Lock) Eq(m *Lock) bool { return *l == *m }

func (t *Task) Eq(u *Task) bool {
	return t.Id == u.Id && t.SortId == u.SortId && EqS(t.ProcessId, u.ProcessId) && t.State == u.State && t.RootPromiseId == u.RootPromiseId && EqS(t.Recv, u.Recv) && EqS(t.Mesg, u.Mesg) &&
		t.Timeout == u.Timeout && t.Counter == u.Counter && t.Attempt == u.Attempt && t.Ttl == u.Ttl && t.ExpiresAt == u.ExpiresAt && EqI(t.CreatedOn, u.CreatedOn) && EqI(t.CompletedOn, u.CompletedOn)
}

// Fingerprint is a short abstract description of the state (for coverage).
func (t *Tables) Fingerprint() string {
	var sb strings.Builder
	pc := map[int]int{}
	for _, p := range t.Promises {
		pc[p.State]++
	}
	tc := map[int]int{}
	for _, x := range t.Tasks {
		tc[x.State]++
	}
	// who holds which lock, which schedules exist (small id pools keep this an abstraction)
	var ls, ss []string
	for _, l := range t.Locks {
		ls = append(ls, l.ResourceId+"="+l.ExecutionId)
	}
	for id := range t.Schedules {
		ss = append(ss, id)
	}
	sort.Strings(ls)
	sort.Strings(ss)
	fmt.Fprintf(&sb, "p%v c%d s%v l%v t%v", sortedInt(pc), len(t.Callbacks), ss, ls, sortedInt(tc))
	return sb.String()
}

func sortedInt(m map[int]int) string {
	ks := []int{}
	for k := range m {
		ks = append(ks, k)
	}
	sort.Ints(ks)
	var sb strings.Builder
	for _, k := range ks {
		fmt.Fprintf(&sb, "%d:%d,", k, m[k])
	}
	return sb.String()
}

func ns(v sql.NullString) *string {
	if !v.Valid {
		return nil
	}
	s := v.String
	return &s
}

func ni(v sql.NullInt64) *int64 {
	if !v.Valid {
		return nil
	}
	i := v.Int64
	return &i
}

// Apply returns the snapshot that results from prev after the listed rows
// changed: only those rows are read again. Rows are shared with prev
// (snapshots are read-only).
func Apply(prev *Tables, db *sql.DB, changed map[string][]int64) (*Tables, error) {
	if prev.idx == nil {
		return Load(db)
	}
	t := &Tables{Promises: prev.Promises, Callbacks: prev.Callbacks, Schedules: prev.Schedules, Locks: prev.Locks, Tasks: prev.Tasks, idx: map[string]map[int64]string{}}
	for k, v := range prev.idx {
		t.idx[k] = v
	}
	tx, err := db.Begin()
	if err != nil {
		return nil, err
	}
	defer tx.Rollback() //nolint
	for table, rowids := range changed {
		// copy on write
		ix := map[int64]string{}
		for k, v := range prev.idx[table] {
			ix[k] = v
		}
		t.idx[table] = ix
		switch table {
		case "promises":
			m := make(map[string]*Promise, len(prev.Promises))
			for k, v := range prev.Promises {
				m[k] = v
			}
			t.Promises = m
		case "callbacks":
			m := make(map[string]*Callback, len(prev.Callbacks))
			for k, v := range prev.Callbacks {
				m[k] = v
			}
			t.Callbacks = m
		case "schedules":
			m := make(map[string]*Schedule, len(prev.Schedules))
			for k, v := range prev.Schedules {
				m[k] = v
			}
			t.Schedules = m
		case "locks":
			m := make(map[string]*Lock, len(prev.Locks))
			for k, v := range prev.Locks {
				m[k] = v
			}
			t.Locks = m
		case "tasks":
			m := make(map[string]*Task, len(prev.Tasks))
			for k, v := range prev.Tasks {
				m[k] = v
			}
			t.Tasks = m
		default:
			continue
		}
		seen := map[int64]bool{}
		for _, rowid := range rowids {
			if seen[rowid] {
				continue
			}
			seen[rowid] = true
			if old, ok := ix[rowid]; ok {
				switch table {
				case "promises":
					delete(t.Promises, old)
				case "callbacks":
					delete(t.Callbacks, old)
				case "schedules":
					delete(t.Schedules, old)
				case "locks":
					delete(t.Locks, old)
				case "tasks":
					delete(t.Tasks, old)
				}
				delete(ix, rowid)
			}
		}
		// second pass (a deleted row's rowid may have been reused by a row whose key another
		// changed rowid held before: remove every old key first, then read)
		for rowid := range seen {
			if err := loadInto(t, tx, table, " WHERE rowid = ?", rowid); err != nil {
				return nil, err
			}
		}
	}
	if err := loadSeq(t, tx); err != nil {
		return nil, err
	}
	return t, nil
}

// Load reads a full snapshot. The caller guarantees no writer is active (or
// that reading the last committed state is what is wanted).
func Load(db *sql.DB) (*Tables, error) {
	t := New()
	t.idx = map[string]map[int64]string{"promises": {}, "callbacks": {}, "schedules": {}, "locks": {}, "tasks": {}}
	tx, err := db.Begin()
	if err != nil {
		return nil, err
	}
	defer tx.Rollback() //nolint
	for _, table := range []string{"promises", "callbacks", "schedules", "locks", "tasks"} {
		if err := loadInto(t, tx, table, ""); err != nil {
			return nil, err
		}
	}
	if err := loadSeq(t, tx); err != nil {
		return nil, err
	}
	return t, nil
}

func loadSeq(t *Tables, tx *sql.Tx) error {
	rows, err := tx.Query(`SELECT name, seq FROM sqlite_sequence`)
	if err != nil {
		return nil // no autoincrement table yet
	}
	defer rows.Close()
	for rows.Next() {
		var name string
		var seq int64
		if err := rows.Scan(&name, &seq); err != nil {
			return err
		}
		switch name {
		case "promises":
			t.SeqPromises = seq
		case "schedules":
			t.SeqSchedules = seq
		case "tasks":
			t.SeqTasks = seq
		}
	}
	return nil
}

// loadInto reads rows of one table (all, or those selected by where) into t.
func loadInto(t *Tables, tx *sql.Tx, table string, where string, args ...any) error {
	switch table {
	case "promises":
		rows, err := tx.Query(`SELECT rowid, id, sort_id, state, param_headers, param_data, value_headers, value_data, timeout, idempotency_key_for_create, idempotency_key_for_complete, tags, created_on, completed_on FROM promises`+where, args...)
		if err != nil {
			return err
		}
		defer rows.Close()
		for rows.Next() {
			p := &Promise{}
			var rowid int64
			var id, ph, pd, vh, vd, ikc, iku, tags sql.NullString
			var state, timeout, co, cm sql.NullInt64
			if err := rows.Scan(&rowid, &id, &p.SortId, &state, &ph, &pd, &vh, &vd, &timeout, &ikc, &iku, &tags, &co, &cm); err != nil {
				return err
			}
			p.Id, p.State, p.Timeout = id.String, int(state.Int64), timeout.Int64
			p.ParamHeaders, p.ParamData, p.ValueHeaders, p.ValueData = ns(ph), ns(pd), ns(vh), ns(vd)
			p.IkCreate, p.IkComplete, p.Tags, p.CreatedOn, p.CompletedOn = ns(ikc), ns(iku), ns(tags), ni(co), ni(cm)
			t.Promises[p.Id] = p
			t.idx[table][rowid] = p.Id
		}
		return rows.Err()
	case "callbacks":
		rows, err := tx.Query(`SELECT rowid, id, promise_id, root_promise_id, recv, mesg, timeout, created_on FROM callbacks`+where, args...)
		if err != nil {
			return err
		}
		defer rows.Close()
		for rows.Next() {
			c := &Callback{}
			var rowid int64
			var id, pid, rid, recv, mesg sql.NullString
			var timeout, co sql.NullInt64
			if err := rows.Scan(&rowid, &id, &pid, &rid, &recv, &mesg, &timeout, &co); err != nil {
				return err
			}
			c.Id, c.PromiseId, c.RootPromiseId, c.Recv, c.Mesg, c.Timeout, c.CreatedOn = id.String, pid.String, rid.String, ns(recv), ns(mesg), timeout.Int64, co.Int64
			t.Callbacks[c.Id] = c
			t.idx[table][rowid] = c.Id
		}
		return rows.Err()
	case "schedules":
		rows, err := tx.Query(`SELECT rowid, id, sort_id, description, cron, tags, promise_id, promise_timeout, promise_param_headers, promise_param_data, promise_tags, last_run_time, next_run_time, idempotency_key, created_on FROM schedules`+where, args...)
		if err != nil {
			return err
		}
		defer rows.Close()
		for rows.Next() {
			s := &Schedule{}
			var rowid int64
			var id, desc, cron, tags, pid, pph, ppd, ptags, ik sql.NullString
			var pto, last, next, co sql.NullInt64
			if err := rows.Scan(&rowid, &id, &s.SortId, &desc, &cron, &tags, &pid, &pto, &pph, &ppd, &ptags, &last, &next, &ik, &co); err != nil {
				return err
			}
			s.Id, s.Description, s.Cron, s.Tags, s.PromiseId, s.PromiseTimeout = id.String, ns(desc), cron.String, ns(tags), pid.String, pto.Int64
			s.PromiseParamHeaders, s.PromiseParamData, s.PromiseTags, s.LastRunTime, s.NextRunTime, s.IdempotencyKey, s.CreatedOn = ns(pph), ns(ppd), ns(ptags), ni(last), next.Int64, ns(ik), co.Int64
			t.Schedules[s.Id] = s
			t.idx[table][rowid] = s.Id
		}
		return rows.Err()
	case "locks":
		rows, err := tx.Query(`SELECT rowid, resource_id, execution_id, process_id, ttl, CAST(expires_at AS INTEGER) FROM locks`+where, args...)
		if err != nil {
			return err
		}
		defer rows.Close()
		for rows.Next() {
			l := &Lock{}
			var rowid int64
			var rid, eid, pid sql.NullString
			var ttl, exp sql.NullInt64
			if err := rows.Scan(&rowid, &rid, &eid, &pid, &ttl, &exp); err != nil {
				return err
			}
			l.ResourceId, l.ExecutionId, l.ProcessId, l.Ttl, l.ExpiresAt = rid.String, eid.String, pid.String, ttl.Int64, exp.Int64
			t.Locks[l.ResourceId] = l
			t.idx[table][rowid] = l.ResourceId
		}
		return rows.Err()
	case "tasks":
		rows, err := tx.Query(`SELECT rowid, id, sort_id, process_id, state, root_promise_id, recv, mesg, timeout, counter, attempt, ttl, CAST(expires_at AS INTEGER), created_on, completed_on FROM tasks`+where, args...)
		if err != nil {
			return err
		}
		defer rows.Close()
		for rows.Next() {
			k := &Task{}
			var rowid int64
			var id, pid, rid, recv, mesg sql.NullString
			var state, timeout, counter, attempt, ttl, exp, co, cm sql.NullInt64
			if err := rows.Scan(&rowid, &id, &k.SortId, &pid, &state, &rid, &recv, &mesg, &timeout, &counter, &attempt, &ttl, &exp, &co, &cm); err != nil {
				return err
			}
			k.Id, k.ProcessId, k.State, k.RootPromiseId, k.Recv, k.Mesg = id.String, ns(pid), int(state.Int64), rid.String, ns(recv), ns(mesg)
			k.Timeout, k.Counter, k.Attempt, k.Ttl, k.ExpiresAt, k.CreatedOn, k.CompletedOn = timeout.Int64, counter.Int64, attempt.Int64, ttl.Int64, exp.Int64, ni(co), ni(cm)
			t.Tasks[k.Id] = k
			t.idx[table][rowid] = k.Id
		}
		return rows.Err()
	}
	return nil
}
