// Package s is engine S: the store backends alone, driven with generated
// batches of store transactions and compared with the reference store model
// (C16) and with each other (C17).
package s

import (
	"bytes"
	"context"
	"database/sql"
	"database/sql/driver"
	"encoding/json"
	"regexp"
	"strings"

	sqlite3 "github.com/mattn/go-sqlite3"

	"github.com/resonatehq/resonate/verif/sim/faultdb"
)

// The Postgres backend is executed on SQLite through a driver that rewrites
// the Postgres dialect token by token. The rules are syntactic, so an edited
// statement is still translated and its edit is executed:
//
//   $n                      -> ?n
//   expr::type              -> expr
//   sort_id SERIAL          -> sort_id INTEGER PRIMARY KEY AUTOINCREMENT
//   PRIMARY KEY(col)        -> UNIQUE(col)
//   a @> b                  -> jsonb_contains(a, b)
//   SELECT DISTINCT ON (x) cols FROM ... ORDER BY o LIMIT n
//                           -> SELECT cols FROM (SELECT *, ROW_NUMBER() OVER (PARTITION BY x ORDER BY o) AS rn__ FROM ...) WHERE rn__ = 1 ORDER BY o LIMIT n

var (
	reParam    = regexp.MustCompile(`\$(\d+)`)
	reCast     = regexp.MustCompile(`::\w+`)
	reSerial   = regexp.MustCompile(`(?i)\bsort_id\s+SERIAL\b`)
	rePK       = regexp.MustCompile(`(?i)\bPRIMARY KEY\s*\(`)
	reContains = regexp.MustCompile(`(\w+)\s*@>\s*(\?\d+|\$\d+|\w+)`)
	reDistinct = regexp.MustCompile(`(?is)^(\s*)SELECT\s+DISTINCT\s+ON\s*\(\s*(\w+)\s*\)(.*?)\bFROM\b(.*)\bORDER\s+BY\b(.*?)\bLIMIT\b(.*)$`)
)

// Translate rewrites one Postgres statement (or script) into the SQLite dialect.
func Translate(q string) string {
	hasSerial := reSerial.MatchString(q)
	q = reCast.ReplaceAllString(q, "")
	q = reContains.ReplaceAllString(q, "jsonb_contains($1, $2)")
	q = reParam.ReplaceAllString(q, "?$1")
	if hasSerial {
		// per statement: the SERIAL column becomes the rowid alias and the
		// declared primary key a unique constraint
		parts := strings.Split(q, ";")
		for i, part := range parts {
			if reSerial.MatchString(part) {
				part = reSerial.ReplaceAllString(part, "sort_id INTEGER PRIMARY KEY AUTOINCREMENT")
				part = rePK.ReplaceAllString(part, "UNIQUE(")
			}
			parts[i] = part
		}
		q = strings.Join(parts, ";")
	}
	if m := reDistinct.FindStringSubmatch(q); m != nil {
		cols, from, order, limit := m[3], m[4], m[5], m[6]
		q = m[1] + "SELECT" + cols + "FROM (SELECT *, ROW_NUMBER() OVER (PARTITION BY " + m[2] + " ORDER BY" + order + ") AS rn__ FROM" + from + ") WHERE rn__ = 1 ORDER BY" + order + "LIMIT" + limit
	}
	return q
}

func jsonbContains(a, b any) bool {
	toBytes := func(v any) []byte {
		switch x := v.(type) {
		case []byte:
			return x
		case string:
			return []byte(x)
		}
		return nil
	}
	ab, bb := toBytes(a), toBytes(b)
	if ab == nil || bb == nil {
		return false
	}
	var av, bv any
	if json.Unmarshal(ab, &av) != nil || json.Unmarshal(bb, &bv) != nil {
		return false
	}
	return contains(av, bv)
}

// contains implements jsonb containment for objects, arrays and scalars.
func contains(a, b any) bool {
	switch bv := b.(type) {
	case map[string]any:
		am, ok := a.(map[string]any)
		if !ok {
			return false
		}
		for k, v := range bv {
			x, ok := am[k]
			if !ok || !contains(x, v) {
				return false
			}
		}
		return true
	case []any:
		aa, ok := a.([]any)
		if !ok {
			return false
		}
		for _, v := range bv {
			found := false
			for _, x := range aa {
				if contains(x, v) {
					found = true
				}
			}
			if !found {
				return false
			}
		}
		return true
	default:
		ab, _ := json.Marshal(a)
		bb, _ := json.Marshal(b)
		return bytes.Equal(ab, bb)
	}
}

// OpenPG returns a *sql.DB that accepts the Postgres dialect and executes it
// on the SQLite file at dsn, controlled (faults, hooks) by ctl.
func OpenPG(dsn string, ctl *faultdb.Control) *sql.DB {
	inner := faultdb.Connector(dsn, ctl, func(c *sqlite3.SQLiteConn) error {
		return c.RegisterFunc("jsonb_contains", jsonbContains, true)
	})
	db := sql.OpenDB(&pgConnector{inner: inner})
	db.SetMaxOpenConns(1)
	return db
}

type pgConnector struct{ inner driver.Connector }

func (c *pgConnector) Connect(ctx context.Context) (driver.Conn, error) {
	conn, err := c.inner.Connect(ctx)
	if err != nil {
		return nil, err
	}
	return &pgConn{Conn: conn}, nil
}
func (c *pgConnector) Driver() driver.Driver { return c.inner.Driver() }

type pgConn struct{ driver.Conn }

func (c *pgConn) PrepareContext(ctx context.Context, q string) (driver.Stmt, error) {
	return c.Conn.(driver.ConnPrepareContext).PrepareContext(ctx, Translate(q))
}
func (c *pgConn) Prepare(q string) (driver.Stmt, error) { return c.PrepareContext(context.Background(), q) }
func (c *pgConn) ExecContext(ctx context.Context, q string, args []driver.NamedValue) (driver.Result, error) {
	return c.Conn.(driver.ExecerContext).ExecContext(ctx, Translate(q), args)
}
func (c *pgConn) QueryContext(ctx context.Context, q string, args []driver.NamedValue) (driver.Rows, error) {
	return c.Conn.(driver.QueryerContext).QueryContext(ctx, Translate(q), args)
}
func (c *pgConn) BeginTx(ctx context.Context, opts driver.TxOptions) (driver.Tx, error) {
	return c.Conn.(driver.ConnBeginTx).BeginTx(ctx, opts)
}
func (c *pgConn) ResetSession(ctx context.Context) error { return nil }
func (c *pgConn) IsValid() bool                          { return true }
