package s

import (
	"testing"

	"github.com/resonatehq/resonate/internal/app/subsystems/aio/store/postgres"
)

func TestTranslateShow(t *testing.T) {
	t.Log(Translate(postgres.CREATE_TABLE_STATEMENT))
	t.Log(Translate(postgres.TASK_SELECT_ENQUEUEABLE_STATEMENT))
	t.Log(Translate(postgres.PROMISE_SEARCH_STATEMENT))
}
