package s

import (
	"crypto/sha256"
	"database/sql"
	"encoding/hex"
	"encoding/json"
	"errors"
	"fmt"
	"math/rand"
	"os"
	"path/filepath"
	"strings"
	"time"

	_ "github.com/mattn/go-sqlite3"
	"github.com/prometheus/client_golang/prometheus"

	"github.com/resonatehq/resonate/internal/app/subsystems/aio/store/postgres"
	"github.com/resonatehq/resonate/internal/app/subsystems/aio/store/sqlite"
	"github.com/resonatehq/resonate/internal/kernel/bus"
	"github.com/resonatehq/resonate/internal/kernel/t_aio"
	"github.com/resonatehq/resonate/internal/metrics"
	"github.com/resonatehq/resonate/pkg/idempotency"
	"github.com/resonatehq/resonate/pkg/message"
	"github.com/resonatehq/resonate/pkg/promise"
	"github.com/resonatehq/resonate/pkg/task"

	"github.com/resonatehq/resonate/verif/sim/faultdb"
	"github.com/resonatehq/resonate/verif/sim/k"
	"github.com/resonatehq/resonate/verif/sim/tables"
)

type aioSQE = bus.SQE[t_aio.Submission, t_aio.Completion]
type aioCQE = bus.CQE[t_aio.Submission, t_aio.Completion]

type processor interface {
	Process([]*aioSQE) []*aioCQE
}

// backend is one store implementation on its own database file.
type backend struct {
	name string
	path string
	ctl  *faultdb.Control
	db   *sql.DB
	obs  *sql.DB
	proc processor
	last *tables.Tables
}

type engineS struct{}

func init() {
	k.Register(engineS{}, "C16", "C17")
}

func (engineS) Name() string { return "S" }

func scratch() string {
	for _, d := range []string{"/dev/shm/verif-sim", filepath.Join(os.TempDir(), "verif-sim")} {
		if os.MkdirAll(d, 0o755) == nil {
			return d
		}
	}
	return os.TempDir()
}

func openBackend(dir, name string) (*backend, error) {
	b := &backend{name: name, path: filepath.Join(dir, name+".db"), ctl: faultdb.NewControl()}
	m := metrics.New(prometheus.NewRegistry())
	switch name {
	case "sqlite":
		b.db = faultdb.Open(b.path, b.ctl)
		st, err := sqlite.NewWithDB(nil, m, &sqlite.Config{Size: 1, BatchSize: 100, Path: b.path, TxTimeout: time.Hour}, b.db)
		if err != nil {
			return nil, err
		}
		if err := st.Start(nil); err != nil {
			return nil, err
		}
		b.proc = st
	case "postgres":
		b.db = OpenPG(b.path, b.ctl)
		st, err := postgres.NewWithDB(nil, m, &postgres.Config{Size: 1, BatchSize: 100, Workers: 1, TxTimeout: time.Hour}, b.db)
		if err != nil {
			return nil, err
		}
		if err := st.Start(nil); err != nil {
			return nil, err
		}
		b.proc = st
	}
	obs, err := sql.Open("sqlite3", "file:"+b.path+"?mode=ro&_busy_timeout=0")
	if err != nil {
		return nil, err
	}
	obs.SetMaxOpenConns(1)
	b.obs = obs
	snap, err := tables.Load(obs)
	if err != nil {
		return nil, err
	}
	b.last = snap
	return b, nil
}

// reopen: the worker process died (a command made the store panic): every connection is gone, a new
// process opens the same file.
func (b *backend) reopen(dir string) error {
	b.close()
	nb, err := openBackend(dir, b.name)
	if err != nil {
		return err
	}
	*b = *nb
	return nil
}

func (b *backend) close() {
	if b.db != nil {
		_ = b.db.Close()
	}
	if b.obs != nil {
		_ = b.obs.Close()
	}
}

// run is one engine-S run.
type run struct {
	prop     string
	dir      string
	backends []*backend
	model    *tables.Tables
	viol     []*k.Violation
	stats    map[string]int
	probes   map[string]int
	sig      []string
	stepNo   int
}

func (r *run) violate(rule string, props []string, kind, cond, detail string) {
	r.viol = append(r.viol, &k.Violation{Rule: rule, Props: props, Kind: kind, Cond: cond, Detail: detail, Step: r.stepNo})
}

func propsFor(prop string, b *backend) []string {
	if b.name == "postgres" {
		return []string{"C17"}
	}
	if prop == "C17" {
		return []string{"C16", "C17"}
	}
	return []string{"C16"}
}

// execBatch applies one batch to the model and to every backend and compares.
func (r *run) execBatch(st *k.Step) {
	var txs []*t_aio.Transaction
	if err := json.Unmarshal(st.Txs, &txs); err != nil || len(txs) == 0 {
		return
	}
	for _, tx := range txs {
		fixNil(tx)
	}
	pre := r.model.Clone()
	mres, merr := r.model.ExecBatch(txs)
	kinds := map[string]bool{}
	stmtsHint := 0
	for _, tx := range txs {
		for _, c := range tx.Commands {
			kinds[c.Kind.String()] = true
			stmtsHint++
		}
	}
	if merr != nil {
		r.probes["batch_constraint_failure"]++
	}
	type outcome struct {
		cqes      []*aioCQE
		committed bool
		post      *tables.Tables
		mid       *tables.Tables
	}
	outs := make([]*outcome, len(r.backends))
	injected := false
	preLast := make([]*tables.Tables, len(r.backends))
	for bi, b := range r.backends {
		preLast[bi] = b.last
	}
	if st.K == 9 {
		injected = true // the batch as a whole must fail: the model goes back
	}
	for bi, b := range r.backends {
		sqes := make([]*aioSQE, len(txs))
		for i, tx := range txs {
			// each backend gets its own deep copy (a backend must not be able to disturb the other through shared arguments)
			var cp *t_aio.Transaction
			raw, _ := json.Marshal(tx)
			_ = json.Unmarshal(raw, &cp)
			fixNil(cp)
			sqes[i] = &aioSQE{Id: fmt.Sprintf("b%d.%d", r.stepNo, i), Submission: &t_aio.Submission{Kind: t_aio.Store, Tags: map[string]string{"id": fmt.Sprintf("b%d.%d", r.stepNo, i)}, Store: &t_aio.StoreSubmission{Transaction: cp}}, Callback: func(*t_aio.Completion, error) {}}
		}
		if st.K == 9 {
			// a last submission the store cannot execute at all (unknown command kind): the worker dies on it
			sqes = append(sqes, &aioSQE{Id: fmt.Sprintf("b%d.poison", r.stepNo), Submission: &t_aio.Submission{Kind: t_aio.Store, Tags: map[string]string{"id": "poison"}, Store: &t_aio.StoreSubmission{Transaction: &t_aio.Transaction{Commands: []*t_aio.Command{{Kind: t_aio.StoreKind(99)}}}}}, Callback: func(*t_aio.Completion, error) {}})
		}
		o := &outcome{}
		outs[bi] = o
		committed := false
		b.ctl.OnCommit = func(bool) { committed = true }
		if st.Sql != nil {
			f := *st.Sql
			b.ctl.Next = &f
		}
		fired0 := b.ctl.Fired["sql.stmt_error"] + b.ctl.Fired["sql.commit_error"] + b.ctl.Fired["sql.begin_error"]
		if st.ObserveAt != nil {
			at := *st.ObserveAt
			b.ctl.OnStmt = func(idx int, q string, exec bool) {
				if idx == at && o.mid == nil {
					// a second connection looks at the database in the middle of the open transaction
					if snap, err := tables.Load(b.obs); err == nil {
						o.mid = snap
					} else {
						r.probes["observer_busy"]++
					}
				}
			}
		}
		died := false
		func() {
			defer func() {
				if p := recover(); p != nil {
					died = true
					if st.K != 9 {
						r.violate("S.panic", append(propsFor(r.prop, b), "C13"), "batch", fmt.Sprint(p), fmt.Sprintf("%s backend panicked: %v", b.name, p))
					}
				}
			}()
			o.cqes = b.proc.Process(sqes)
		}()
		if st.K == 9 {
			// whatever happened, the batch must not have become durable: no submission was answered.
			// A worker that died is replaced by a new process on the same file.
			r.probes["poison_batch"]++
			if died {
				r.probes["poison_killed_worker"]++
				if err := b.reopen(r.dir); err != nil {
					panic(fmt.Sprintf("harness: reopen of %s failed: %v", b.name, err))
				}
				b.ctl.OnStmt, b.ctl.OnCommit, b.ctl.Next = nil, nil, nil
				snap, err := tables.Load(b.obs)
				if err != nil {
					panic(fmt.Sprintf("harness: snapshot of %s failed: %v", b.name, err))
				}
				if d := tables.Diff(preLast[bi], snap, false); len(d) > 0 {
					r.violate("S.poison_effects", propsFor(r.prop, b), "batch", "a batch that killed the store worker left effects", b.name+": "+strings.Join(d, "\n"))
				}
				b.last = snap
				o.post = snap
				o.cqes = nil
				continue
			}
		}
		b.ctl.OnStmt, b.ctl.OnCommit, b.ctl.Next = nil, nil, nil
		if b.ctl.Fired["sql.stmt_error"]+b.ctl.Fired["sql.commit_error"]+b.ctl.Fired["sql.begin_error"] > fired0 {
			injected = true
			r.stats["sql.fault_fired"]++
		}
		o.committed = committed
		snap, err := tables.Load(b.obs)
		if err != nil {
			panic(fmt.Sprintf("harness: snapshot of %s failed: %v", b.name, err))
		}
		o.post = snap
	}
	if injected {
		// the batch must fail as a whole: restore the model
		*r.model = *pre
	}
	kindStr := "batch"
	_ = sortedKeys
	for bi, b := range r.backends {
		o := outs[bi]
		props := propsFor(r.prop, b)
		mustFail := injected || merr != nil
		wantCqes := len(txs)
		if st.K == 9 {
			wantCqes++
		}
		if o.cqes == nil || len(o.cqes) != wantCqes {
			if o.cqes != nil {
				r.violate("S.cqe_count", props, "batch", "completion count", fmt.Sprintf("%s: %d completions for %d submissions", b.name, len(o.cqes), wantCqes))
			}
			b.last = o.post
			continue
		}
		if o.mid != nil {
			r.probes["isolation_observed"]++
			if d := tables.Diff(b.last, o.mid, false); len(d) > 0 {
				r.violate("S.isolation", props, kindStr, "uncommitted effects visible to another connection", b.name+": "+strings.Join(d, "\n"))
			}
		}
		if mustFail {
			for i, c := range o.cqes {
				if c.Error == nil {
					r.violate("S.partial_failure", props, "batch", "submission succeeded in a failed batch", fmt.Sprintf("%s: submission %d of %d carries no error (model error: %v, injected: %v)", b.name, i, len(txs), merr, injected))
					break
				}
			}
			if d := tables.Diff(b.last, o.post, false); len(d) > 0 {
				r.violate("S.partial_effects", props, kindStr, "failed batch left effects", b.name+": "+strings.Join(d, "\n"))
			}
			if o.committed {
				r.violate("S.commit_despite_failure", props, "batch", "failed batch committed", b.name)
			}
			r.probes["batch_failed_atomically"]++
		} else {
			for i, c := range o.cqes {
				if c.Error != nil {
					r.violate("S.unexpected_error", props, kindStr, "error without cause", fmt.Sprintf("%s: submission %d: %v", b.name, i, c.Error))
					continue
				}
				res := c.Completion.Store.Results
				if len(res) != len(txs[i].Commands) {
					r.violate("S.result_count", props, "batch", "result count", fmt.Sprintf("%s: %d results for %d commands", b.name, len(res), len(txs[i].Commands)))
					continue
				}
				for j := range res {
					if d := tables.Compare(mres[i][j], res[j]); d != "" {
						r.violate("S.result", props, txs[i].Commands[j].Kind.String(), "result differs from the reference", fmt.Sprintf("%s: tx %d command %d (%s): %s", b.name, i, j, cmdString(txs[i].Commands[j]), d))
					}
				}
			}
			if d := tables.Diff(r.model, o.post, false); len(d) > 0 {
				r.violate("S.state", props, kindStr, "state differs from the reference", b.name+": "+strings.Join(d, "\n"))
			}
		}
		b.last = o.post
	}
	// the twin comparison proper: both backends side by side
	if len(r.backends) == 2 {
		a, b := outs[0], outs[1]
		if d := tables.Diff(a.post, b.post, false); len(d) > 0 {
			r.violate("S.twin_state", []string{"C17"}, kindStr, "backends diverge in table content", strings.Join(d, "\n"))
		}
		if a.cqes != nil && b.cqes != nil && len(a.cqes) == len(b.cqes) {
			for i := range a.cqes {
				if (a.cqes[i].Error == nil) != (b.cqes[i].Error == nil) {
					r.violate("S.twin_error", []string{"C17"}, kindStr, "one backend fails where the other succeeds", fmt.Sprintf("submission %d: sqlite err=%v postgres err=%v", i, a.cqes[i].Error, b.cqes[i].Error))
				}
			}
		}
		r.probes["twin_compared"]++
	}
	// resynchronise the model with the first backend so that one mismatch is reported once
	if len(r.backends) > 0 && len(tables.Diff(r.model, outs[0].post, false)) > 0 {
		r.model = outs[0].post.Clone()
	}
	for kd := range kinds {
		r.probes["kind."+kd]++
	}
	var sg []string
	for i, tx := range txs {
		for j, c := range tx.Commands {
			h := "err"
			if merr == nil && !injected {
				h, _ = tables.Canon(mres[i][j].Result)
				if mres[i][j].Open != nil {
					h = c.Kind.String() + " open"
				}
			}
			sg = append(sg, h)
			if merr == nil && !injected && (strings.Contains(h, "affected=0") || strings.Contains(h, "rows=0")) {
				r.probes["guard_refused."+c.Kind.String()]++
			}
		}
	}
	r.sig = append(r.sig, strings.Join(sg, ","))
}

func sortedKeys(m map[string]bool) []string {
	var ks []string
	for x := range m {
		ks = append(ks, x)
	}
	sortStrings(ks)
	return ks
}

func cmdString(c *t_aio.Command) string {
	b, _ := json.Marshal(c)
	s := string(b)
	// drop null fields for readability
	for strings.Contains(s, ":null,") {
		i := strings.Index(s, ":null,")
		j := strings.LastIndex(s[:i], `"`)
		j = strings.LastIndex(s[:j], `"`)
		s = s[:j] + s[i+6:]
	}
	if len(s) > 400 {
		s = s[:400]
	}
	return s
}

// fixNil restores the non-nil-ness JSON round trips lose (the kernel always
// passes non-nil maps and byte slices where the store asserts them).
func fixNil(tx *t_aio.Transaction) {
	for _, c := range tx.Commands {
		fixCmd(c)
	}
}

func fixCmd(c *t_aio.Command) {
	fixP := func(p *t_aio.CreatePromiseCommand) {
		if p.Param.Headers == nil {
			p.Param.Headers = map[string]string{}
		}
		if p.Param.Data == nil {
			p.Param.Data = []byte{}
		}
		if p.Tags == nil {
			p.Tags = map[string]string{}
		}
	}
	fixT := func(t *t_aio.CreateTaskCommand) {
		if t.Recv == nil {
			t.Recv = []byte{}
		}
	}
	switch c.Kind {
	case t_aio.CreatePromise:
		fixP(c.CreatePromise)
	case t_aio.CreatePromiseAndTask:
		fixP(c.CreatePromiseAndTask.PromiseCommand)
		fixT(c.CreatePromiseAndTask.TaskCommand)
	case t_aio.CreateTask:
		fixT(c.CreateTask)
	case t_aio.UpdatePromise:
		if c.UpdatePromise.Value.Headers == nil {
			c.UpdatePromise.Value.Headers = map[string]string{}
		}
		if c.UpdatePromise.Value.Data == nil {
			c.UpdatePromise.Value.Data = []byte{}
		}
	case t_aio.CreateCallback:
		if c.CreateCallback.Recv == nil {
			c.CreateCallback.Recv = []byte{}
		}
	case t_aio.CreateSchedule:
		s := c.CreateSchedule
		if s.Tags == nil {
			s.Tags = map[string]string{}
		}
		if s.PromiseTags == nil {
			s.PromiseTags = map[string]string{}
		}
		if s.PromiseParam.Headers == nil {
			s.PromiseParam.Headers = map[string]string{}
		}
		if s.PromiseParam.Data == nil {
			s.PromiseParam.Data = []byte{}
		}
	case t_aio.SearchPromises:
		if c.SearchPromises.Tags == nil {
			c.SearchPromises.Tags = map[string]string{}
		}
		if c.SearchPromises.States == nil {
			c.SearchPromises.States = []promise.State{}
		}
	case t_aio.SearchSchedules:
		if c.SearchSchedules.Tags == nil {
			c.SearchSchedules.Tags = map[string]string{}
		}
	}
}

// ------------------------------------------------------------------ generation

type gen struct {
	r    *rand.Rand
	uniq int
}

func pick[T any](r *rand.Rand, xs []T) T { return xs[r.Intn(len(xs))] }

var (
	pids   = []string{"p0", "p1", "p2", "a.p1"}
	cids   = []string{"c0", "c1", "t0"}
	tids   = []string{"t0", "t1", "c0", "c1", "__invoke:p0"}
	sids   = []string{"s0", "s1", "s10"}
	lids   = []string{"l0", "l1"}
	execs  = []string{"e0", "e1"}
	procs  = []string{"w0", "w1"}
	states = []promise.State{promise.Resolved, promise.Rejected, promise.Canceled, promise.Timedout}
)

func (g *gen) t() int64 { return int64(g.r.Intn(20)) }

func (g *gen) key() *idempotency.Key {
	if g.r.Intn(2) == 0 {
		return nil
	}
	kk := idempotency.Key(pick(g.r, []string{"k0", "k1"}))
	return &kk
}

func (g *gen) value() promise.Value {
	g.uniq++
	v := promise.Value{Headers: map[string]string{}, Data: []byte(fmt.Sprintf("v#%d", g.uniq))}
	if g.r.Intn(3) == 0 {
		v.Headers["h"] = fmt.Sprintf("x%d", g.uniq)
	}
	if g.r.Intn(6) == 0 {
		v.Data = []byte{}
	}
	return v
}

func (g *gen) tags() map[string]string {
	m := map[string]string{}
	if g.r.Intn(2) == 0 {
		m["t"] = pick(g.r, []string{"a", "b"})
	}
	if g.r.Intn(4) == 0 {
		m["u"] = "z"
	}
	return m
}

func (g *gen) mesg() *message.Mesg {
	return &message.Mesg{Type: pick(g.r, []message.Type{message.Invoke, message.Resume, message.Notify}), Root: pick(g.r, pids), Leaf: pick(g.r, pids)}
}

func (g *gen) taskStates() []task.State {
	all := []task.State{task.Init, task.Enqueued, task.Claimed, task.Completed, task.Timedout}
	n := 1 + g.r.Intn(3)
	var out []task.State
	for i := 0; i < n; i++ {
		out = append(out, pick(g.r, all))
	}
	return out
}

func (g *gen) createPromise() *t_aio.CreatePromiseCommand {
	return &t_aio.CreatePromiseCommand{Id: pick(g.r, pids), Param: g.value(), Timeout: g.t(), IdempotencyKey: g.key(), Tags: g.tags(), CreatedOn: g.t()}
}

func (g *gen) createTask() *t_aio.CreateTaskCommand {
	c := &t_aio.CreateTaskCommand{Id: pick(g.r, tids), Recv: []byte(pick(g.r, []string{`"poll://g"`, `{"type":"http","data":{"url":"u"}}`})), Mesg: g.mesg(), Timeout: g.t(), State: task.Init, CreatedOn: g.t()}
	if g.r.Intn(2) == 0 {
		p := pick(g.r, procs)
		c.ProcessId, c.State, c.Ttl, c.ExpiresAt = &p, task.Claimed, g.r.Intn(10), g.t()
	}
	return c
}

func (g *gen) command() *t_aio.Command {
	r := g.r
	kind := t_aio.StoreKind(r.Intn(int(t_aio.TimeoutLocks) + 1))
	c := &t_aio.Command{Kind: kind}
	switch kind {
	case t_aio.ReadPromise:
		c.ReadPromise = &t_aio.ReadPromiseCommand{Id: pick(r, pids)}
	case t_aio.ReadPromises:
		c.ReadPromises = &t_aio.ReadPromisesCommand{Time: g.t(), Limit: pick(r, []int{1, 2, 100})}
	case t_aio.SearchPromises:
		var st []promise.State
		for _, s := range []promise.State{promise.Pending, promise.Resolved, promise.Rejected, promise.Canceled, promise.Timedout} {
			if r.Intn(2) == 0 {
				st = append(st, s)
			}
		}
		if st == nil {
			st = []promise.State{promise.Pending}
		}
		c.SearchPromises = &t_aio.SearchPromisesCommand{Id: pick(r, []string{"*", "p*", "*1", "p1", "*.p*"}), States: st, Tags: g.searchTags(), Limit: pick(r, []int{1, 2, 100})}
		if r.Intn(3) == 0 {
			v := int64(r.Intn(6))
			c.SearchPromises.SortId = &v
		}
	case t_aio.CreatePromise:
		c.CreatePromise = g.createPromise()
	case t_aio.UpdatePromise:
		c.UpdatePromise = &t_aio.UpdatePromiseCommand{Id: pick(r, pids), State: pick(r, states), Value: g.value(), IdempotencyKey: g.key(), CompletedOn: g.t()}
	case t_aio.CreateCallback:
		c.CreateCallback = &t_aio.CreateCallbackCommand{Id: pick(r, cids), PromiseId: pick(r, pids), Recv: []byte(`"poll://g"`), Mesg: g.mesg(), Timeout: g.t(), CreatedOn: g.t()}
	case t_aio.DeleteCallbacks:
		c.DeleteCallbacks = &t_aio.DeleteCallbacksCommand{PromiseId: pick(r, pids)}
	case t_aio.ReadSchedule:
		c.ReadSchedule = &t_aio.ReadScheduleCommand{Id: pick(r, sids)}
	case t_aio.ReadSchedules:
		c.ReadSchedules = &t_aio.ReadSchedulesCommand{NextRunTime: g.t(), Limit: pick(r, []int{1, 2, 100})}
	case t_aio.SearchSchedules:
		c.SearchSchedules = &t_aio.SearchSchedulesCommand{Id: pick(r, []string{"*", "s*", "*0", "s1"}), Tags: g.searchTags(), Limit: pick(r, []int{1, 2, 100})}
		if r.Intn(3) == 0 {
			v := int64(r.Intn(5))
			c.SearchSchedules.SortId = &v
		}
	case t_aio.CreateSchedule:
		c.CreateSchedule = &t_aio.CreateScheduleCommand{Id: pick(r, sids), Description: pick(r, []string{"", "d"}), Cron: "* * * * *", Tags: g.tags(), PromiseId: "x.{{.timestamp}}", PromiseTimeout: g.t(),
			PromiseParam: g.value(), PromiseTags: g.tags(), NextRunTime: g.t(), IdempotencyKey: g.key(), CreatedOn: g.t()}
	case t_aio.UpdateSchedule:
		last := g.t()
		c.UpdateSchedule = &t_aio.UpdateScheduleCommand{Id: pick(r, sids), LastRunTime: &last, NextRunTime: g.t()}
	case t_aio.DeleteSchedule:
		c.DeleteSchedule = &t_aio.DeleteScheduleCommand{Id: pick(r, sids)}
	case t_aio.ReadTask:
		c.ReadTask = &t_aio.ReadTaskCommand{Id: pick(r, tids)}
	case t_aio.ReadTasks:
		c.ReadTasks = &t_aio.ReadTasksCommand{States: g.taskStates(), Time: g.t(), Limit: pick(r, []int{1, 2, 100})}
	case t_aio.ReadEnqueueableTasks:
		c.ReadEnquableTasks = &t_aio.ReadEnqueueableTasksCommand{Time: g.t(), Limit: pick(r, []int{1, 2, 100})}
	case t_aio.CreateTask:
		c.CreateTask = g.createTask()
	case t_aio.CreateTasks:
		c.CreateTasks = &t_aio.CreateTasksCommand{PromiseId: pick(r, pids), CreatedOn: g.t()}
	case t_aio.CompleteTasks:
		c.CompleteTasks = &t_aio.CompleteTasksCommand{RootPromiseId: pick(r, pids), CompletedOn: g.t()}
	case t_aio.UpdateTask:
		u := &t_aio.UpdateTaskCommand{Id: pick(r, tids), State: pick(r, []task.State{task.Init, task.Enqueued, task.Claimed, task.Completed, task.Timedout}), Counter: 1 + r.Intn(3), Attempt: r.Intn(3), Ttl: r.Intn(10), ExpiresAt: g.t(),
			CurrentStates: g.taskStates(), CurrentCounter: 1 + r.Intn(3)}
		if r.Intn(2) == 0 {
			p := pick(r, procs)
			u.ProcessId = &p
		}
		if r.Intn(3) == 0 {
			v := g.t()
			u.CompletedOn = &v
		}
		c.UpdateTask = u
	case t_aio.HeartbeatTasks:
		c.HeartbeatTasks = &t_aio.HeartbeatTasksCommand{ProcessId: pick(r, procs), Time: g.t()}
	case t_aio.CreatePromiseAndTask:
		pc := g.createPromise()
		tc := g.createTask()
		if r.Intn(4) != 0 {
			tc.Id = "__invoke:" + pc.Id
		}
		c.CreatePromiseAndTask = &t_aio.CreatePromiseAndTaskCommand{PromiseCommand: pc, TaskCommand: tc}
	case t_aio.ReadLock:
		c.ReadLock = &t_aio.ReadLockCommand{ResourceId: pick(r, lids)}
	case t_aio.AcquireLock:
		c.AcquireLock = &t_aio.AcquireLockCommand{ResourceId: pick(r, lids), ProcessId: pick(r, procs), ExecutionId: pick(r, execs), Ttl: int64(r.Intn(10)), ExpiresAt: g.t()}
	case t_aio.ReleaseLock:
		c.ReleaseLock = &t_aio.ReleaseLockCommand{ResourceId: pick(r, lids), ExecutionId: pick(r, execs)}
	case t_aio.HeartbeatLocks:
		c.HeartbeatLocks = &t_aio.HeartbeatLocksCommand{ProcessId: pick(r, procs), Time: g.t()}
	case t_aio.TimeoutLocks:
		c.TimeoutLocks = &t_aio.TimeoutLocksCommand{Timeout: g.t()}
	}
	return c
}

func (g *gen) searchTags() map[string]string {
	m := map[string]string{}
	if g.r.Intn(3) == 0 {
		m["t"] = pick(g.r, []string{"a", "b"})
	}
	return m
}

func (g *gen) batch() []*t_aio.Transaction {
	n := 1 + g.r.Intn(5)
	if g.r.Intn(4) == 0 {
		n = 1
	}
	big := g.r.Intn(12) == 0
	if big {
		// a batch as large as a loaded server collects (the store's batch size defaults to 1000):
		// all-or-nothing must not depend on the number of submissions
		n = 40 + g.r.Intn(180)
	}
	txs := make([]*t_aio.Transaction, n)
	for i := range txs {
		m := 1 + g.r.Intn(5)
		if big {
			m = 1 + g.r.Intn(2)
		}
		tx := &t_aio.Transaction{}
		for j := 0; j < m; j++ {
			tx.Commands = append(tx.Commands, g.command())
		}
		txs[i] = tx
	}
	return txs
}

// ------------------------------------------------------------------ engine api

func newRun(prop string) (*run, string, error) {
	dir, err := os.MkdirTemp(scratch(), "s-")
	if err != nil {
		return nil, "", err
	}
	r := &run{prop: prop, dir: dir, stats: map[string]int{}, probes: map[string]int{}}
	names := []string{"sqlite"}
	if prop == "C17" {
		names = []string{"sqlite", "postgres"}
	}
	for _, n := range names {
		b, err := openBackend(dir, n)
		if err != nil {
			return nil, dir, err
		}
		r.backends = append(r.backends, b)
	}
	r.model = r.backends[0].last.Clone()
	return r, dir, nil
}

func (r *run) close(dir string) {
	for _, b := range r.backends {
		b.close()
	}
	_ = os.RemoveAll(dir)
}

func (r *run) result(prop string, runNo int, seed int64, plan *k.Plan) *k.RunResult {
	res := &k.RunResult{Property: prop, Run: runNo, Seed: seed, Steps: len(plan.Steps), Commits: len(r.sig), Stats: r.stats, Probes: r.probes, Statuses: map[string]int{}, Violations: r.viol}
	sum := sha256.Sum256([]byte(strings.Join(r.sig, "|")))
	res.Sig = hex.EncodeToString(sum[:8])
	res.Nontrivial = r.stats["sql.fault_fired"] > 0 || r.probes["batch_constraint_failure"] > 0 || hasPrefixKey(r.probes, "guard_refused.")
	res.States = []string{r.model.Fingerprint()}
	h := sha256.New()
	fmt.Fprint(h, strings.Join(r.sig, "|"))
	for _, v := range r.viol {
		fmt.Fprint(h, v.Fingerprint())
	}
	for _, b := range r.backends {
		for _, d := range tables.Diff(tables.New(), b.last, false) {
			fmt.Fprint(h, d)
		}
	}
	res.EventHash = hex.EncodeToString(h.Sum(nil)[:12])
	return res
}

func hasPrefixKey(m map[string]int, p string) bool {
	for x := range m {
		if strings.HasPrefix(x, p) {
			return true
		}
	}
	return false
}

func (engineS) Generate(prop string, seed int64, runNo int) (*k.RunResult, error) {
	rs := seed*1_000_003 + int64(runNo)*7919 + int64(len(prop))*31 + int64(prop[2])
	rng := rand.New(rand.NewSource(rs))
	r, dir, err := newRun(prop)
	if err != nil {
		return nil, err
	}
	defer r.close(dir)
	g := &gen{r: rng}
	plan := &k.Plan{Property: prop, Profile: "store", Seed: seed, Run: runNo, Engine: "S"}
	n := 8 + rng.Intn(30)
	for i := 0; i < n; i++ {
		txs := g.batch()
		raw, _ := json.Marshal(txs)
		st := k.Step{Op: "batch", Txs: raw}
		if rng.Intn(6) == 0 || (len(txs) > 30 && rng.Intn(2) == 0) {
			at := rng.Intn(10)
			if len(txs) > 30 {
				// anywhere in the batch, the far end included
				at = rng.Intn(3 * len(txs))
			}
			st.Sql = &faultdb.Fault{Where: pick(rng, []string{"stmt", "stmt", "stmt", "commit", "begin"}), At: at, Err: pick(rng, []string{"full", "ioerr", "busy"})}
		}
		if rng.Intn(3) == 0 {
			at := 1 + rng.Intn(8)
			st.ObserveAt = &at
		}
		if st.Sql == nil && rng.Intn(25) == 0 {
			st.K = 9 // the batch ends with a submission that kills the store worker
		}
		r.stepNo = i
		r.execBatch(&st)
		plan.Steps = append(plan.Steps, st)
	}
	res := r.result(prop, runNo, seed, plan)
	res.Plan = plan
	return res, nil
}

func (engineS) Replay(plan *k.Plan, verbose bool) (*k.RunResult, error) {
	r, dir, err := newRun(plan.Property)
	if err != nil {
		return nil, err
	}
	defer r.close(dir)
	for i := range plan.Steps {
		st := plan.Steps[i]
		if st.Op != "batch" {
			continue
		}
		r.stepNo = i
		r.execBatch(&st)
		if verbose {
			fmt.Printf("step %d: %s\n", i, string(st.Txs))
		}
	}
	return r.result(plan.Property, plan.Run, plan.Seed, plan), nil
}

func (e engineS) Samples(prop string, seed int64, n int) []any {
	var out []any
	for run := 0; run < 20 && len(out) < n; run++ {
		res, err := e.Generate(prop, seed, run)
		if err != nil || res.Plan == nil {
			continue
		}
		steps := res.Plan.Steps
		if len(steps) > 4 {
			steps = steps[:4]
		}
		out = append(out, map[string]any{"run": run, "first_batches": steps, "probes": res.Probes})
	}
	if len(out) == 0 {
		out = append(out, errors.New("no sample").Error())
	}
	return out
}

func (engineS) Rule(prop string) string {
	base := "Each evaluation is one run of 8-37 generated store batches (1-5 transactions of 1-5 commands, all 27 command kinds, arguments over small domains so that every guard is hit from both sides) " +
		"applied through the production Process/Execute/SQL to a real SQLite file and, step by step, to the in-memory reference store written from the command contract; results (rows affected / returned, records) and full table contents are compared after every batch; " +
		"a share of batches gets an injected failure at a statement position, at begin or at commit (all submissions must fail, content unchanged), and a share is observed through a second connection in the middle of the open transaction (nothing visible before commit). " +
		"A run is non-trivial when a guard refused a write, a batch failed on a constraint or an injected fault fired; distinct = distinct sequences of per-command outcomes."
	if prop == "C17" {
		base += " For C17 the same batches go through the Postgres backend code as well (its statements are executed on SQLite by a syntactic dialect-rewriting driver) and the two backends are compared with the reference and with each other."
	}
	return base
}

func (engineS) Components() map[string]string {
	return map[string]string{
		"store.Process / Execute / performCommands / SQL text (sqlite)":   "real",
		"store.Process / Execute / performCommands / SQL text (postgres)": "real (C17 only; hook H2)",
		"SQLite engine": "real (file database on tmpfs through the fault-injecting driver)",
		"Postgres server": "stub: Postgres statements rewritten token by token ($n, ::type, SERIAL/PRIMARY KEY, @>, DISTINCT ON) and executed by SQLite",
		"kernel, coroutines, queues": "not part of this engine",
	}
}

func (engineS) Assumptions(prop string) []string {
	a := []string{"SQLite's query engine and atomic commit are trusted", "the reference store is written from the command contract, not from the SQL text", "sort ids are compared exactly, including that a refused insert consumes one"}
	if prop == "C17" {
		a = append(a, "no Postgres server exists in the sandbox: behaviour that only a real Postgres has (READ COMMITTED with several workers, case-sensitive LIKE, jsonb normalisation, SERIAL gaps on rollback) is not decided; the check decides that postgres.go applies the same guards, writes the same values and maps results the same way")
	}
	return a
}

func sortStrings(xs []string) {
	for i := 1; i < len(xs); i++ {
		for j := i; j > 0 && xs[j] < xs[j-1]; j-- {
			xs[j], xs[j-1] = xs[j-1], xs[j]
		}
	}
}
