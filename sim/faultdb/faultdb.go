// Package faultdb is the simulated disk of the verification harness: a
// database/sql driver that wraps mattn/go-sqlite3 and lets the simulator
// count, observe and fail statements, begins and commits, and be told about
// every committed transaction.
//
// It is driven from one goroutine at a time (the simulator decides who runs),
// so Control carries no locks.
package faultdb

import (
	"context"
	"database/sql"
	"database/sql/driver"
	"errors"
	"fmt"

	sqlite3 "github.com/mattn/go-sqlite3"
)

// Fault describes what happens to the next transaction that begins.
type Fault struct {
	// Where: "begin" (BeginTx fails), "stmt" (statement number At of the
	// transaction fails without being executed), "commit" (Commit rolls back
	// and fails).
	Where string `json:"where"`
	At    int    `json:"at,omitempty"`
	// Err: "full", "ioerr", "busy" (sqlite error classes).
	Err string `json:"err,omitempty"`
}

// Stmt is one executed statement (for attribution and evidence).
type Stmt struct {
	Query string
	Args  []driver.NamedValue
	Exec  bool
}

// Control is the handle the simulator keeps on a database.
type Control struct {
	// Next is consumed by the next BeginTx.
	Next *Fault

	// OnStmt is called before a statement inside a transaction is executed,
	// with the open-transaction statement index.
	OnStmt func(idx int, query string, exec bool)
	// OnCommit is called after a successful commit; wrote tells whether the
	// transaction executed at least one non-query statement.
	OnCommit func(wrote bool)
	// OnRollback is called after a rollback (explicit or forced).
	OnRollback func()
	// FailWrites > 0: the disk is full: every writing statement of the next FailWrites
	// transactions fails, reads succeed
	FailWrites int
	// OnFire is called when an injected fault fires, before the error is returned (the
	// open transaction, if any, is still open: a crash image taken here is what a killed
	// process leaves behind at that statement)
	OnFire func()

	// Changes lists the rows (table, rowid) inserted, updated or deleted by
	// the transaction that is open or was committed last.
	Changes []Change

	// statistics
	Begins, Commits, Rollbacks, Stmts int
	Fired                             map[string]int

	// state of the open transaction
	failTx  bool
	cur     *Fault
	inTx    bool
	stmtIdx int
	wrote   bool
}

// Change is one row change reported by the engine's update hook.
type Change struct {
	Table string
	Rowid int64
}

func NewControl() *Control { return &Control{Fired: map[string]int{}} }

func (c *Control) fire(k string) {
	c.Fired[k]++
	if c.OnFire != nil {
		c.OnFire()
	}
}

func mkErr(kind string) error {
	switch kind {
	case "full":
		return sqlite3.Error{Code: sqlite3.ErrFull}
	case "busy":
		return sqlite3.Error{Code: sqlite3.ErrBusy}
	case "ioerr", "":
		return sqlite3.Error{Code: sqlite3.ErrIoErr}
	case "txdone":
		// what database/sql reports from Commit when the transaction's context expired and the
		// transaction has been rolled back behind the caller's back
		return sql.ErrTxDone
	default:
		return fmt.Errorf("injected: %s", kind)
	}
}

// ErrInjected reports whether err was produced by this package.
func ErrInjected(err error) bool {
	var e sqlite3.Error
	return errors.As(err, &e) || errors.Is(err, sql.ErrTxDone)
}

// Open returns a *sql.DB over the sqlite file at dsn, controlled by ctl.
func Open(dsn string, ctl *Control) *sql.DB {
	db := sql.OpenDB(&connector{dsn: dsn, ctl: ctl})
	db.SetMaxOpenConns(1)
	return db
}

// Connector returns the fault-injecting connector; hook (optional) is run on
// every new raw connection (e.g. to register SQL functions).
func Connector(dsn string, ctl *Control, hook func(*sqlite3.SQLiteConn) error) driver.Connector {
	return &connector{dsn: dsn, ctl: ctl, hook: hook}
}

type connector struct {
	dsn  string
	ctl  *Control
	hook func(*sqlite3.SQLiteConn) error
}

func (c *connector) Connect(ctx context.Context) (driver.Conn, error) {
	raw, err := (&sqlite3.SQLiteDriver{ConnectHook: c.hook}).Open(c.dsn)
	if err != nil {
		return nil, err
	}
	rc := raw.(*sqlite3.SQLiteConn)
	ctl := c.ctl
	rc.RegisterUpdateHook(func(op int, db string, table string, rowid int64) {
		ctl.Changes = append(ctl.Changes, Change{Table: table, Rowid: rowid})
	})
	return &conn{raw: rc, ctl: ctl}, nil
}

func (c *connector) Driver() driver.Driver { return drv{} }

type drv struct{}

func (drv) Open(string) (driver.Conn, error) { return nil, errors.New("faultdb: use Open") }

type conn struct {
	raw *sqlite3.SQLiteConn
	ctl *Control
}

func (c *conn) before(query string, exec bool) error {
	ctl := c.ctl
	if !ctl.inTx {
		return nil
	}
	idx := ctl.stmtIdx
	ctl.stmtIdx++
	ctl.Stmts++
	if ctl.OnStmt != nil {
		ctl.OnStmt(idx, query, exec)
	}
	if f := ctl.cur; f != nil && f.Where == "stmt" && f.At == idx {
		ctl.cur = nil
		ctl.fire("sql.stmt_error")
		return mkErr(f.Err)
	}
	if exec && ctl.failTx {
		ctl.Fired["sql.disk_full"]++
		return mkErr("full")
	}
	if exec {
		ctl.wrote = true
	}
	return nil
}

func (c *conn) Prepare(query string) (driver.Stmt, error) {
	return c.PrepareContext(context.Background(), query)
}

func (c *conn) PrepareContext(ctx context.Context, query string) (driver.Stmt, error) {
	s, err := c.raw.PrepareContext(ctx, query)
	if err != nil {
		return nil, err
	}
	return &stmt{raw: s.(*sqlite3.SQLiteStmt), c: c, query: query}, nil
}

func (c *conn) Close() error { return c.raw.Close() }

func (c *conn) Begin() (driver.Tx, error) {
	return c.BeginTx(context.Background(), driver.TxOptions{})
}

func (c *conn) BeginTx(ctx context.Context, opts driver.TxOptions) (driver.Tx, error) {
	ctl := c.ctl
	f := ctl.Next
	ctl.Next = nil
	if f != nil && f.Where == "begin" {
		ctl.fire("sql.begin_error")
		return nil, mkErr(f.Err)
	}
	t, err := c.raw.BeginTx(ctx, opts)
	if err != nil {
		return nil, err
	}
	ctl.Begins++
	ctl.failTx = false
	if ctl.FailWrites > 0 {
		ctl.FailWrites--
		ctl.failTx = true
	}
	ctl.Changes = ctl.Changes[:0]
	ctl.cur = f
	ctl.inTx = true
	ctl.stmtIdx = 0
	ctl.wrote = false
	return &tx{raw: t, c: c}, nil
}

func (c *conn) ExecContext(ctx context.Context, query string, args []driver.NamedValue) (driver.Result, error) {
	if err := c.before(query, true); err != nil {
		return nil, err
	}
	return c.raw.ExecContext(ctx, query, args)
}

func (c *conn) QueryContext(ctx context.Context, query string, args []driver.NamedValue) (driver.Rows, error) {
	if err := c.before(query, false); err != nil {
		return nil, err
	}
	return c.raw.QueryContext(ctx, query, args)
}

func (c *conn) Ping(ctx context.Context) error { return c.raw.Ping(ctx) }

func (c *conn) ResetSession(ctx context.Context) error { return nil }

func (c *conn) IsValid() bool { return true }

type stmt struct {
	raw   *sqlite3.SQLiteStmt
	c     *conn
	query string
}

func (s *stmt) Close() error  { return s.raw.Close() }
func (s *stmt) NumInput() int { return s.raw.NumInput() }

func (s *stmt) Exec(args []driver.Value) (driver.Result, error) {
	return nil, errors.New("faultdb: Exec without context not supported")
}

func (s *stmt) Query(args []driver.Value) (driver.Rows, error) {
	return nil, errors.New("faultdb: Query without context not supported")
}

func (s *stmt) ExecContext(ctx context.Context, args []driver.NamedValue) (driver.Result, error) {
	if err := s.c.before(s.query, true); err != nil {
		return nil, err
	}
	return s.raw.ExecContext(ctx, args)
}

func (s *stmt) QueryContext(ctx context.Context, args []driver.NamedValue) (driver.Rows, error) {
	if err := s.c.before(s.query, false); err != nil {
		return nil, err
	}
	return s.raw.QueryContext(ctx, args)
}

type tx struct {
	raw driver.Tx
	c   *conn
}

func (t *tx) Commit() error {
	ctl := t.c.ctl
	if f := ctl.cur; f != nil && f.Where == "commit" {
		ctl.cur = nil
		ctl.fire("sql.commit_error")
		_ = t.raw.Rollback()
		ctl.inTx = false
		ctl.Rollbacks++
		if ctl.OnRollback != nil {
			ctl.OnRollback()
		}
		return mkErr(f.Err)
	}
	if err := t.raw.Commit(); err != nil {
		ctl.inTx = false
		return err
	}
	ctl.inTx = false
	ctl.cur = nil
	ctl.Commits++
	if ctl.OnCommit != nil {
		ctl.OnCommit(ctl.wrote)
	}
	return nil
}

func (t *tx) Rollback() error {
	ctl := t.c.ctl
	err := t.raw.Rollback()
	ctl.inTx = false
	ctl.cur = nil
	ctl.Rollbacks++
	if ctl.OnRollback != nil {
		ctl.OnRollback()
	}
	return err
}
