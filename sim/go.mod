module github.com/resonatehq/resonate/verif/sim

go 1.23.0

toolchain go1.23.5

require (
	github.com/anishathalye/porcupine v1.3.0
	github.com/mattn/go-sqlite3 v1.14.24
	github.com/prometheus/client_golang v1.20.5
	github.com/resonatehq/resonate v0.0.0
	github.com/robfig/cron/v3 v3.0.1
	github.com/spf13/cobra v1.8.1
	google.golang.org/grpc v1.70.0
	google.golang.org/protobuf v1.36.5
)

require (
	github.com/beorn7/perks v1.0.1 // indirect
	github.com/cespare/xxhash/v2 v2.3.0 // indirect
	github.com/fsnotify/fsnotify v1.7.0 // indirect
	github.com/gabriel-vasile/mimetype v1.4.8 // indirect
	github.com/gin-contrib/sse v0.1.0 // indirect
	github.com/gin-gonic/gin v1.10.0 // indirect
	github.com/go-playground/locales v0.14.1 // indirect
	github.com/go-playground/universal-translator v0.18.1 // indirect
	github.com/go-playground/validator/v10 v10.24.0 // indirect
	github.com/golang-jwt/jwt v3.2.2+incompatible // indirect
	github.com/google/uuid v1.6.0 // indirect
	github.com/hashicorp/hcl v1.0.0 // indirect
	github.com/leodido/go-urn v1.4.0 // indirect
	github.com/lib/pq v1.10.9 // indirect
	github.com/magiconair/properties v1.8.7 // indirect
	github.com/mattn/go-isatty v0.0.20 // indirect
	github.com/mitchellh/mapstructure v1.5.0 // indirect
	github.com/munnerz/goautoneg v0.0.0-20191010083416-a7dc8b61c822 // indirect
	github.com/pelletier/go-toml/v2 v2.2.2 // indirect
	github.com/prometheus/client_model v0.6.1 // indirect
	github.com/prometheus/common v0.55.0 // indirect
	github.com/prometheus/procfs v0.15.1 // indirect
	github.com/resonatehq/gocoro v0.0.0-20240928015848-78539a59dab0 // indirect
	github.com/sagikazarmark/slog-shim v0.1.0 // indirect
	github.com/spf13/afero v1.11.0 // indirect
	github.com/spf13/cast v1.6.0 // indirect
	github.com/spf13/pflag v1.0.5 // indirect
	github.com/spf13/viper v1.19.0 // indirect
	github.com/subosito/gotenv v1.6.0 // indirect
	github.com/ugorji/go/codec v1.2.12 // indirect
	golang.org/x/crypto v0.35.0 // indirect
	golang.org/x/net v0.36.0 // indirect
	golang.org/x/sys v0.30.0 // indirect
	golang.org/x/text v0.22.0 // indirect
	google.golang.org/genproto/googleapis/rpc v0.0.0-20241202173237-19429a94021a // indirect
	gopkg.in/ini.v1 v1.67.0 // indirect
	gopkg.in/yaml.v3 v3.0.1 // indirect
)

replace github.com/resonatehq/resonate => /repo
