// vcheck is the orchestrator of the verification checks: it spawns worker
// processes that generate and execute simulated runs, aggregates coverage,
// minimises violations and writes evidence.
package main

import (
	"bufio"
	"bytes"
	"encoding/json"
	"flag"
	"fmt"
	"io"
	"log/slog"
	"os"
	"os/exec"
	"path/filepath"
	"regexp"
	"runtime"
	"runtime/pprof"
	"sort"
	"strconv"
	"strings"
	"sync"
	"sync/atomic"
	"syscall"
	"time"

	"github.com/resonatehq/resonate/verif/sim/k"
	_ "github.com/resonatehq/resonate/verif/sim/s"
)

func main() {
	slog.SetDefault(slog.New(slog.NewTextHandler(io.Discard, nil)))
	if len(os.Args) < 2 {
		usage()
	}
	switch os.Args[1] {
	case "check":
		os.Exit(cmdCheck(os.Args[2:]))
	case "worker":
		os.Exit(cmdWorker(os.Args[2:]))
	case "replay":
		os.Exit(cmdReplay(os.Args[2:]))
	case "exec":
		os.Exit(cmdExec(os.Args[2:]))
	case "trace":
		os.Exit(cmdTrace(os.Args[2:]))
	case "selftest":
		os.Exit(cmdSelftest(os.Args[2:]))
	default:
		usage()
	}
}

func usage() {
	fmt.Fprintln(os.Stderr, "usage: vcheck check|worker|replay|exec|trace|selftest ...")
	os.Exit(2)
}

func verifRoot() string {
	if r := os.Getenv("VERIF_ROOT"); r != "" {
		return r
	}
	return "/verif"
}

func envSeed(def int64) int64 {
	if v := os.Getenv("VERIF_SEED"); v != "" {
		if n, err := strconv.ParseInt(v, 10, 64); err == nil {
			return n
		}
	}
	return def
}

// ---------------------------------------------------------- external engines

// extEngine is an engine that lives in a separate test binary built with the
// newer toolchain (testing/synctest); the orchestrator talks to it through
// environment variables and JSON lines.
type extEngine struct {
	name  string
	bin   string
	rule  string
	comps map[string]string
	assum []string
}

func (e *extEngine) Name() string { return e.name }
func (e *extEngine) path() string { return filepath.Join(verifRoot(), "bin", e.bin) }
func (e *extEngine) Generate(prop string, seed int64, run int) (*k.RunResult, error) {
	out, err := e.run(map[string]string{"MODE": "worker", "SEED": fmt.Sprint(seed), "FROM": fmt.Sprint(run), "MAX": "1", "KEEP_PLAN": "1", "PROP": prop})
	if err != nil {
		return nil, err
	}
	for _, l := range bytes.Split(out, []byte("\n")) {
		var wl workerLine
		if json.Unmarshal(l, &wl) == nil && wl.Type == "run" {
			return wl.Result, nil
		}
	}
	return nil, fmt.Errorf("no result from %s", e.bin)
}
func (e *extEngine) run(env map[string]string) ([]byte, error) {
	cmd := exec.Command(e.path(), "-test.run", "^TestWorker$", "-test.timeout", "6h")
	cmd.Env = append(os.Environ(), "TZ=UTC")
	for k2, v := range env {
		cmd.Env = append(cmd.Env, "VERIF_P_"+k2+"="+v)
	}
	return cmd.Output()
}
func (e *extEngine) Replay(plan *k.Plan, verbose bool) (*k.RunResult, error) {
	f, err := os.CreateTemp("", "vplan-*.json")
	if err != nil {
		return nil, err
	}
	defer os.Remove(f.Name())
	b, _ := json.Marshal(plan)
	_, _ = f.Write(b)
	f.Close()
	env := map[string]string{"MODE": "exec", "PLAN": f.Name(), "PROP": plan.Property}
	if verbose {
		env["MODE"] = "replay"
		env["VERBOSE"] = "1"
	}
	out, err := e.run(env)
	var last *k.RunResult
	for _, l := range bytes.Split(out, []byte("\n")) {
		var r k.RunResult
		if len(l) > 0 && l[0] == '{' && json.Unmarshal(l, &r) == nil && r.EventHash != "" {
			rr := r
			last = &rr
		} else if verbose && len(l) > 0 {
			fmt.Println(string(l))
		}
	}
	if last == nil {
		return nil, fmt.Errorf("no result from %s: %v", e.bin, err)
	}
	return last, nil
}
func (e *extEngine) Samples(prop string, seed int64, n int) []any {
	var out []any
	for run := 0; run < 10 && len(out) < n; run++ {
		r, err := e.Generate(prop, seed, run)
		if err != nil || r == nil || r.Plan == nil {
			continue
		}
		st := r.Plan.Steps
		if len(st) > 30 {
			st = st[:30]
		}
		out = append(out, map[string]any{"run": run, "config": r.Plan.Config, "steps": st, "probes": r.Probes})
	}
	if len(out) == 0 {
		out = append(out, "no sample")
	}
	return out
}
func (e *extEngine) Rule(string) string               { return e.rule }
func (e *extEngine) Components() map[string]string    { return e.comps }
func (e *extEngine) Assumptions(string) []string      { return e.assum }

func init() {
	k.Register(&extEngine{name: "P", bin: "ptest",
		rule: "Each evaluation is one run inside a testing/synctest bubble: a configuration (connection buffer 1..100, connection limit 1..100, submission queue 1..100, clients that accept bytes freely or only when the scheduler lets them) and 10-50 steps " +
			"(connect group/id through the production HTTP handler, client goes away, send invoke/resume/notify with or without id to a group, release the worker parked in a completion callback, let a gated client accept bytes, stop) drawn from VERIF_SEED; one event at a time with quiescence (synctest.Wait) in between; " +
			"while the worker is parked the scheduler may queue submissions and registry events of one kind, so that no select ever has two ready cases. Every completion and every stream is judged against a registry model written from the statement. " +
			"Non-trivial: a connection was replaced or refused, or a message was refused; distinct = distinct event logs.",
		comps: map[string]string{"PollWorker.Start loop, registry (add/rmv/get), Process": "real (hook H6)", "PollHandler.ServeHTTP": "real, with in-memory response writers and cancellable contexts", "TCP listener, http.Server": "stub (not started)", "sender worker / kernel": "not part of this engine"},
		assum: []string{"testing/synctest (go1.26.8) is trusted for quiescence detection", "runs in which a select could have two ready cases are not generated (the pruned outcomes are: connect and disconnect reports queued at the same time)", "the choice among several listeners of a group uses math/rand's global source, seeded per run"},
	}, "C18")
	k.Register(&extEngine{name: "L", bin: "ptest",
		rule: "Engine L evaluations are runs of the production System.Loop / api.Signal / aio.Signal / Shutdown with the production api and aio queues inside a testing/synctest bubble: swarm over api queue, completion queue, coroutine pool, submission/completion batch and subsystem queue sizes (1..100), 8-48 steps (bursts of requests, completions or failures of a controlled subsystem, capacity changes, sleeps on the fake clock, shutdown at any point), then completion of everything, shutdown and a late request; plus a run of the production store.Collect over sends, flushes and a close. Non-trivial: at least two requests were refused or failed explicitly.",
		comps: map[string]string{"System.Loop, Tick, Shutdown, Done": "real", "api.go (queue, Signal, buffer)": "real", "aio.go (queue, Signal, buffer, Dispatch)": "real", "Echo coroutine": "real", "subsystem": "stub (controlled: capacity and completions decided by the scheduler)", "store.Collect": "real (separate micro-simulation)"},
		assum: []string{"testing/synctest (go1.26.8) is trusted for quiescence and the fake clock", "after Shutdown() the production loop polls; from then on steps are separated by yields instead of quiescence, outcomes are independent of that timing", "instruction-level races between Shutdown() and a concurrent EnqueueSQE are not explored (api.done is an unsynchronised bool)"},
	})
}

// ------------------------------------------------------------------- worker

type workerLine struct {
	Type   string       `json:"type"` // run | start | done
	Run    int          `json:"run"`
	Result *k.RunResult `json:"result,omitempty"`
}

func cmdWorker(args []string) int {
	fs := flag.NewFlagSet("worker", flag.ExitOnError)
	prop := fs.String("property", "", "")
	seed := fs.Int64("seed", 1, "")
	from := fs.Int("from", 0, "")
	stride := fs.Int("stride", 1, "")
	deadline := fs.Int64("deadline", 0, "unix ms")
	maxRuns := fs.Int("max", 0, "")
	verify := fs.Bool("verify-replay", false, "replay every generated plan after a JSON round trip and compare event hashes")
	engName := fs.String("engine", "", "engine to use instead of the property's own")
	_ = fs.Parse(args)
	out := bufio.NewWriterSize(os.Stdout, 1<<20)
	defer out.Flush()
	enc := json.NewEncoder(out)
	eng := k.EngineFor(*prop)
	if *engName != "" {
		eng = k.EngineByName(*engName)
	}
	n := 0
	if pf := os.Getenv("VERIF_PROF"); pf != "" {
		f, _ := os.Create(pf)
		_ = pprof.StartCPUProfile(f)
		defer pprof.StopCPUProfile()
	}
	// resource limits: a run that needs more than this is a harness problem
	_ = syscall.Setrlimit(syscall.RLIMIT_AS, &syscall.Rlimit{Cur: 6 << 30, Max: 6 << 30})
	var curRun atomic.Int64
	var curStart atomic.Int64
	k.WatchHang(func() string { return fmt.Sprintf("run %d of %s", curRun.Load(), *prop) })
	go func() {
		for {
			time.Sleep(time.Second)
			if st := curStart.Load(); st > 0 && time.Now().UnixMilli()-st > 300_000 {
				fmt.Fprintf(os.Stderr, "WATCHDOG: run %d of %s exceeded 300 s\n", curRun.Load(), *prop)
				os.Exit(5)
			}
		}
	}()
	for run := *from; ; run += *stride {
		curRun.Store(int64(run))
		curStart.Store(time.Now().UnixMilli())
		if *deadline > 0 && time.Now().UnixMilli() >= *deadline {
			break
		}
		if *maxRuns > 0 && n >= *maxRuns {
			break
		}
		n++
		// announce the run so that the parent knows what died if we die
		_ = enc.Encode(&workerLine{Type: "start", Run: run})
		out.Flush()
		res, err := eng.Generate(*prop, *seed, run)
		if err != nil {
			fmt.Fprintf(os.Stderr, "harness error: %v\n", err)
			return 2
		}
		if *verify && res.Plan != nil {
			b, _ := json.Marshal(res.Plan)
			var p2 k.Plan
			if err := json.Unmarshal(b, &p2); err != nil {
				fmt.Fprintf(os.Stderr, "harness error: plan round trip: %v\n", err)
				return 2
			}
			r2, err := eng.Replay(&p2, false)
			if err != nil || r2.EventHash != res.EventHash {
				fmt.Fprintf(os.Stderr, "REPLAY-DIVERGENCE property=%s run=%d generate=%s replay=%v err=%v\n", *prop, run, res.EventHash, r2, err)
				res.EventHash = res.EventHash + "!replay-diverged"
			}
		}
		if len(res.Violations) == 0 {
			res.Plan = nil
		}
		res.ProcFrom, res.ProcStride = *from, *stride
		if os.Getenv("VERIF_LEAKDBG") != "" && n%200 == 0 {
			var ms runtime.MemStats
			runtime.GC()
			runtime.ReadMemStats(&ms)
			fmt.Fprintf(os.Stderr, "LEAKDBG runs=%d goroutines=%d heap=%dMB sys=%dMB\n", n, runtime.NumGoroutine(), ms.HeapAlloc>>20, ms.Sys>>20)
			if n%1000 == 0 {
				f, _ := os.Create(fmt.Sprintf("/tmp/leak-%d.goroutines", n))
				_ = pprof.Lookup("goroutine").WriteTo(f, 1)
				f.Close()
				f, _ = os.Create(fmt.Sprintf("/tmp/leak-%d.heap", n))
				_ = pprof.Lookup("heap").WriteTo(f, 0)
				f.Close()
			}
		}
		_ = enc.Encode(&workerLine{Type: "run", Run: run, Result: res})
		// every simulated server that is abandoned (end of a run, crash) leaves its coroutines'
		// goroutines parked for good, and so does every coroutine the scheduler refused; a process
		// that has collected too many hands over to a fresh one (the orchestrator continues after this run)
		if n%50 == 0 && *maxRuns == 0 && (runtime.NumGoroutine() > 15000 || n >= 4000) {
			out.Flush()
			os.Exit(3)
		}
	}
	_ = enc.Encode(&workerLine{Type: "done"})
	return 0
}

// ------------------------------------------------------------ replay / exec

func loadPlan(path string) (*k.Plan, error) {
	b, err := os.ReadFile(path)
	if err != nil {
		return nil, err
	}
	var p k.Plan
	if err := json.Unmarshal(b, &p); err != nil {
		return nil, err
	}
	return &p, nil
}

func cmdReplay(args []string) int {
	fs := flag.NewFlagSet("replay", flag.ExitOnError)
	path := fs.String("plan", "", "")
	verbose := fs.Bool("v", false, "")
	_ = fs.Parse(args)
	plan, err := loadPlan(*path)
	if err != nil {
		fmt.Fprintln(os.Stderr, err)
		return 2
	}
	if strings.HasPrefix(plan.Expect, "death:") {
		// the violation is the death of the process: run the plan in a child and classify how it ends
		self, _ := os.Executable()
		cmd := exec.Command(self, "exec", "-plan", *path)
		cmd.Env = append(os.Environ(), "TZ=UTC")
		var stderr bytes.Buffer
		cmd.Stderr = &stderr
		err := cmd.Run()
		if err == nil {
			fmt.Println("the plan ran to its end; no death")
			return 0
		}
		v := classifyDeath(stderr.String())
		if v == nil {
			fmt.Fprintf(os.Stderr, "child died without a production frame:\n%s\n", firstLines(stderr.String(), 40))
			return 2
		}
		fmt.Printf("violation rule=%s props=%v kind=%s cond=%q frame=%s\n  %s\n", v.Rule, v.Props, v.Kind, v.Cond, v.Frame, firstLines(v.Detail, 30))
		if "death:"+v.Fingerprint() == plan.Expect || plan.Expect == "death:"+v.Frame {
			fmt.Printf("VIOLATION property=%s replay=%s\n", plan.Property, *path)
			return 1
		}
		return 0
	}
	k.WatchHang(func() string { return "replay " + *path })
	eng := k.EngineByName(plan.Engine)
	var res *k.RunResult
	if h := plan.History; h != nil && h.Stride > 0 {
		// regenerate what the worker process had executed before this run, in this process
		fmt.Printf("replaying runs %d, %d, ... %d of seed %d in one process\n", h.From, h.From+h.Stride, h.Upto, plan.Seed)
		for run := h.From; run <= h.Upto; run += h.Stride {
			r, err := eng.Generate(plan.Property, plan.Seed, run)
			if err != nil {
				fmt.Fprintln(os.Stderr, err)
				return 2
			}
			res = r
		}
		if res == nil {
			return 2
		}
	} else {
		res, err = eng.Replay(plan, *verbose)
		if err != nil {
			fmt.Fprintln(os.Stderr, err)
			return 2
		}
	}
	hit := false
	for _, v := range res.Violations {
		fmt.Printf("violation rule=%s props=%v kind=%s cond=%q step=%d\n  %s\n", v.Rule, v.Props, v.Kind, v.Cond, v.Step, firstLines(v.Detail, 12))
		if plan.Expect == "" || v.Fingerprint() == plan.Expect {
			hit = true
		}
	}
	fmt.Printf("event_hash=%s violations=%d\n", res.EventHash, len(res.Violations))
	if hit {
		fmt.Printf("VIOLATION property=%s replay=%s\n", plan.Property, *path)
		return 1
	}
	return 0
}

func firstLines(s string, n int) string {
	ls := strings.Split(s, "\n")
	if len(ls) > n {
		ls = append(ls[:n], "...")
	}
	return strings.Join(ls, "\n  ")
}

// exec: run a plan, print the result as JSON (used by the minimiser).
func cmdExec(args []string) int {
	fs := flag.NewFlagSet("exec", flag.ExitOnError)
	path := fs.String("plan", "", "")
	_ = fs.Parse(args)
	plan, err := loadPlan(*path)
	if err != nil {
		fmt.Fprintln(os.Stderr, err)
		return 2
	}
	k.WatchHang(func() string { return "exec " + *path })
	res, err := k.EngineByName(plan.Engine).Replay(plan, false)
	if err != nil {
		fmt.Fprintln(os.Stderr, err)
		return 2
	}
	res.Plan = nil
	_ = json.NewEncoder(os.Stdout).Encode(res)
	return 0
}

// trace: regenerate one run writing the plan step by step, so that the plan
// survives the death of this process.
func cmdTrace(args []string) int {
	fs := flag.NewFlagSet("trace", flag.ExitOnError)
	prop := fs.String("property", "", "")
	seed := fs.Int64("seed", 1, "")
	run := fs.Int("run", 0, "")
	out := fs.String("out", "", "")
	_ = fs.Parse(args)
	k.TraceFile = *out
	k.WatchHang(func() string { return "trace" })
	res, err := k.EngineFor(*prop).Generate(*prop, *seed, *run)
	if err != nil {
		fmt.Fprintln(os.Stderr, err)
		return 2
	}
	_ = res
	return 0
}

// ---------------------------------------------------------------------- check

type knownFinding struct {
	Property string `json:"property"`
	Match    string `json:"match"` // regular expression on the fingerprint
	What     string `json:"what"`
	Status   string `json:"status,omitempty"` // "" = open finding, "fixed" = repaired (suppresses nothing)
	Commit   string `json:"commit,omitempty"`
}

func loadKnown() []knownFinding {
	var out []knownFinding
	b, err := os.ReadFile(filepath.Join(verifRoot(), "known_findings.jsonl"))
	if err != nil {
		return nil
	}
	for _, l := range strings.Split(string(b), "\n") {
		l = strings.TrimSpace(l)
		if l == "" || strings.HasPrefix(l, "#") {
			continue
		}
		var kf knownFinding
		if json.Unmarshal([]byte(l), &kf) == nil && kf.Status != "fixed" {
			out = append(out, kf)
		}
	}
	return out
}

func matchKnown(known []knownFinding, prop string, fp string) *knownFinding {
	for i := range known {
		kf := &known[i]
		if !containsProp(kf.Property, prop) {
			continue
		}
		if re, err := regexp.Compile(kf.Match); err == nil && re.MatchString(fp) {
			return kf
		}
	}
	return nil
}

func containsProp(list, prop string) bool {
	for _, p := range strings.Split(list, ",") {
		if strings.TrimSpace(p) == prop {
			return true
		}
	}
	return false
}

type agg struct {
	alts map[string][]*k.RunResult
	runs       int
	nontrivial map[string]bool
	sigs       map[string]bool
	states     map[string]bool
	stats      map[string]int
	probes     map[string]int
	statuses   map[string]int
	simMs      int64
	reqs       int
	answered   int
	commits    int
	ticks      int
	steps      int
	samples    []any
	viol       map[string]*k.RunResult // fingerprint -> first run showing it
	violCount  map[string]int
	otherViol  map[string]int
}

func newAgg() *agg {
	return &agg{alts: map[string][]*k.RunResult{}, nontrivial: map[string]bool{}, sigs: map[string]bool{}, states: map[string]bool{}, stats: map[string]int{}, probes: map[string]int{}, statuses: map[string]int{},
		viol: map[string]*k.RunResult{}, violCount: map[string]int{}, otherViol: map[string]int{}}
}

func (a *agg) add(prop string, r *k.RunResult) {
	a.runs++
	a.sigs[r.Sig] = true
	if r.Nontrivial {
		a.nontrivial[r.Sig] = true
	}
	for _, s := range r.States {
		a.states[s] = true
	}
	for k2, v := range r.Stats {
		a.stats[k2] += v
	}
	for k2, v := range r.Probes {
		a.probes[k2] += v
	}
	for k2, v := range r.Statuses {
		a.statuses[k2] += v
	}
	a.simMs += r.SimMs
	a.reqs += r.Requests
	a.answered += r.Answered
	a.commits += r.Commits
	a.ticks += r.Ticks
	a.steps += r.Steps
	for _, v := range r.Violations {
		if v.Has(prop) {
			fp := v.Fingerprint()
			a.violCount[fp]++
			if _, ok := a.viol[fp]; !ok {
				a.viol[fp] = r
			} else if len(a.alts[fp]) < 6 && r.Plan != nil {
				// further runs with the same fingerprint: tried when the first does not replay
				a.alts[fp] = append(a.alts[fp], r)
			}
		} else {
			a.otherViol[v.Rule+" "+strings.Join(v.Props, ",")]++
		}
	}
}

func cmdCheck(args []string) int {
	fs := flag.NewFlagSet("check", flag.ExitOnError)
	prop := fs.String("property", "", "property id")
	tier := fs.String("tier", "", "quick|thorough")
	seed := fs.Int64("seed", envSeed(1), "")
	secs := fs.Int("secs", 0, "seconds of runs")
	workers := fs.Int("workers", 0, "")
	maxRuns := fs.Int("max", 0, "max runs per worker (0 = time bound)")
	_ = fs.Parse(args)
	if *tier == "" {
		*tier = os.Getenv("VERIF_TIER")
	}
	if *tier != "thorough" {
		*tier = "quick"
	}
	if *secs == 0 {
		if *tier == "quick" {
			*secs = 40
		} else {
			*secs = 600
		}
	}
	if *workers == 0 {
		*workers = runtime.NumCPU()
		if *workers > 16 {
			*workers = 16
		}
	}
	start := time.Now()
	fmt.Printf("VERIF_SEED=%d property=%s tier=%s workers=%d secs=%d\n", *seed, *prop, *tier, *workers, *secs)
	eng := k.EngineFor(*prop)
	if eng == nil {
		fmt.Fprintf(os.Stderr, "no engine for property %s\n", *prop)
		return 2
	}
	self, _ := os.Executable()
	a := newAgg()
	// C12 is decided by two engines: the kernel engine and the loop engine
	phases := []k.Engine{eng}
	shares := []float64{1}
	if *prop == "C12" {
		phases = []k.Engine{eng, k.EngineByName("L")}
		shares = []float64{0.6, 0.4}
	}
	if *prop == "C13" {
		// the poll transport itself (registry, worker, handler) under connection histories: a panic
		// there takes the server down when a stored task is dispatched
		phases = []k.Engine{eng, k.EngineByName("P")}
		shares = []float64{0.85, 0.15}
	}
	if *prop == "C11" {
		// a transport that never completes a hand-off stops the dispatcher for good: the transport engine
		// decides that every message given to the poll worker is completed, whatever the listeners do
		phases = []k.Engine{eng, k.EngineByName("P")}
		shares = []float64{0.85, 0.15}
	}
	if *prop == "C19" {
		// where a resolved poll address ends up inside the transport (which listener gets the bytes, what a
		// full or absent listener does to the hand-off) is decided by the transport engine
		phases = []k.Engine{eng, k.EngineByName("P")}
		shares = []float64{0.85, 0.15}
	}
	if *prop == "C18" {
		// what reaches the poll transport comes from the production sender: the kernel engine adds the
		// hand-off itself (address and bytes as the transport holds them until a listener takes them)
		phases = []k.Engine{eng, k.EngineByName("K")}
		shares = []float64{0.75, 0.25}
	}
	if *prop == "C16" {
		// the store engine decides the command contract; the kernel engine adds the batches the
		// production coroutines really submit (rule M1: every batch refines the reference store)
		phases = []k.Engine{eng, k.EngineByName("K")}
		shares = []float64{0.7, 0.3}
	}
	infra := false
	type death struct {
		run    int
		stderr string
	}
	var deaths []death
	for pi, eng := range phases {
	deadline := time.Now().Add(time.Duration(float64(*secs)*shares[pi]*1000) * time.Millisecond).UnixMilli()
	var mu sync.Mutex
	var wg sync.WaitGroup
	for w := 0; w < *workers; w++ {
		wg.Add(1)
		go func(w int) {
			defer wg.Done()
			from := w
			for {
				if time.Now().UnixMilli() >= deadline {
					return
				}
				cmd := exec.Command(self, "worker", "-engine", eng.Name(), "-property", *prop, "-seed", fmt.Sprint(*seed), "-from", fmt.Sprint(from), "-stride", fmt.Sprint(*workers), "-deadline", fmt.Sprint(deadline), "-max", fmt.Sprint(*maxRuns))
				cmd.Env = append(os.Environ(), "TZ=UTC", "GOMAXPROCS=2")
				if ext, ok := eng.(*extEngine); ok {
					cmd = exec.Command(ext.path(), "-test.run", "^TestWorker$", "-test.timeout", "6h")
					cmd.Env = append(os.Environ(), "TZ=UTC", "GOMAXPROCS=2", "VERIF_P_MODE=worker", "VERIF_P_PROP="+*prop, "VERIF_P_SEED="+fmt.Sprint(*seed), "VERIF_P_FROM="+fmt.Sprint(from), "VERIF_P_STRIDE="+fmt.Sprint(*workers), "VERIF_P_DEADLINE="+fmt.Sprint(deadline), "VERIF_P_MAX="+fmt.Sprint(*maxRuns))
				}
				var stderr bytes.Buffer
				cmd.Stderr = &stderr
				stdout, err := cmd.StdoutPipe()
				if err != nil {
					mu.Lock()
					infra = true
					mu.Unlock()
					return
				}
				if err := cmd.Start(); err != nil {
					mu.Lock()
					infra = true
					mu.Unlock()
					return
				}
				sc := bufio.NewScanner(stdout)
				sc.Buffer(make([]byte, 1<<20), 1<<28)
				cur := -1
				last := from - *workers
				done := false
				// a worker that says nothing for ten minutes is killed: infrastructure trouble, never a violation
				var silent atomic.Int64
				silent.Store(time.Now().Unix())
				stopMon := make(chan struct{})
				var hung atomic.Bool
				go func() {
					for {
						select {
						case <-stopMon:
							return
						case <-time.After(5 * time.Second):
						}
						if time.Now().Unix()-silent.Load() > 600 {
							hung.Store(true)
							_ = cmd.Process.Kill()
							return
						}
					}
				}()
				for sc.Scan() {
					silent.Store(time.Now().Unix())
					var wl workerLine
					if err := json.Unmarshal(sc.Bytes(), &wl); err != nil {
						continue
					}
					switch wl.Type {
					case "start":
						cur = wl.Run
					case "run":
						last = wl.Run
						mu.Lock()
						a.add(*prop, wl.Result)
						if len(a.samples) < 2 && wl.Result.Nontrivial && wl.Result.Plan == nil {
							// sample plans are regenerated below
						}
						mu.Unlock()
						cur = -1
					case "done":
						done = true
					}
				}
				err = cmd.Wait()
				close(stopMon)
				if hung.Load() {
					fmt.Fprintf(os.Stderr, "worker silent for ten minutes in run %d, killed\n", cur)
					mu.Lock()
					infra = true
					mu.Unlock()
					return
				}
				if done || (err == nil) {
					return
				}
				if ee, ok := err.(*exec.ExitError); ok && ee.ExitCode() == 3 && cur < 0 {
					// the worker reported a run whose bubble could not be torn down and left; carry on after it
					if *maxRuns > 0 {
						return
					}
					from = last + *workers
					continue
				}
				// the worker died in run cur
				mu.Lock()
				deaths = append(deaths, death{run: cur, stderr: stderr.String()})
				mu.Unlock()
				if cur < 0 {
					mu.Lock()
					infra = true
					mu.Unlock()
					return
				}
				if *maxRuns > 0 {
					return
				}
				from = cur + *workers
			}
		}(w)
	}
	wg.Wait()
	}
	wall := time.Since(start).Seconds()

	known := loadKnown()
	outDir := filepath.Join(verifRoot(), "out", "replays")
	_ = os.MkdirAll(outDir, 0o755)
	exit := 0
	knownSeen := map[string]int{}

	// worker deaths: classify by stack
	for _, d := range deaths {
		v := classifyDeath(d.stderr)
		if v == nil {
			fmt.Fprintf(os.Stderr, "worker died without a production frame (run %d):\n%s\n", d.run, firstLines(d.stderr, 40))
			infra = true
			continue
		}
		frame := v.Frame
		fp := v.Fingerprint()
		relevant := v.Has(*prop)
		if !relevant {
			a.otherViol["panic "+frame]++
			continue
		}
		if kf := matchKnown(known, *prop, fp); kf != nil {
			knownSeen[kf.What]++
			continue
		}
		if _, seen := a.viol[fp]; seen {
			a.violCount[fp]++
			continue
		}
		// regenerate the run with step-by-step tracing to obtain the plan
		tracePath := filepath.Join(outDir, fmt.Sprintf("%s-%d-%d-death.json", *prop, *seed, d.run))
		tc := exec.Command(self, "trace", "-property", *prop, "-seed", fmt.Sprint(*seed), "-run", fmt.Sprint(d.run), "-out", tracePath)
		tc.Env = append(os.Environ(), "TZ=UTC")
		_ = tc.Run()
		a.violCount[fp]++
		a.viol[fp] = &k.RunResult{Property: *prop, Run: d.run, Seed: *seed, Violations: []*k.Violation{v}}
		if plan, err := loadTrace(tracePath); err == nil {
			plan.Expect = "death:" + fp
			_ = frame
			a.viol[fp].Plan = plan
		}
	}

	fps := make([]string, 0, len(a.viol))
	for fp := range a.viol {
		fps = append(fps, fp)
	}
	sort.Strings(fps)
	reported := 0
	for _, fp := range fps {
		if kf := matchKnown(known, *prop, fp); kf != nil {
			knownSeen[kf.What] += a.violCount[fp]
			continue
		}
		if reported >= 3 {
			exit = 1
			continue
		}
		// the first run with this fingerprint, then the alternates: a run may fail to replay in a
		// fresh process when production code keeps process-wide state that an earlier run of the
		// same worker left behind; another run with the same fingerprint may be self-contained
		cands := append([]*k.RunResult{a.viol[fp]}, a.alts[fp]...)
		var r *k.RunResult
		var viol *k.Violation
		var path string
		failures := 0
		for _, c := range cands {
			var cv *k.Violation
			for _, v := range c.Violations {
				if v.Fingerprint() == fp {
					cv = v
				}
			}
			cpath := filepath.Join(outDir, fmt.Sprintf("%s-%d-%d.json", *prop, *seed, c.Run))
			ok := true
			if c.Plan != nil {
				plan := c.Plan
				if !strings.HasPrefix(plan.Expect, "death:") {
					plan.Expect = fp
				}
				plan = minimise(self, plan, fp)
				plan.Note = fmt.Sprintf("rule %s: %s", cv.Rule, firstLines(cv.Detail, 6))
				b, _ := json.MarshalIndent(plan, "", " ")
				_ = os.WriteFile(cpath, b, 0o644)
				// replaying the file in a fresh process must reproduce the violation
				rc := exec.Command(self, "replay", "-plan", cpath)
				rc.Env = append(os.Environ(), "TZ=UTC")
				outb, _ := rc.CombinedOutput()
				if !strings.Contains(string(outb), "VIOLATION property=") {
					fmt.Fprintf(os.Stderr, "replay of %s did not reproduce %s:\n%s\n", cpath, fp, firstLines(string(outb), 20))
					ok = false
					failures++
				}
			}
			if ok {
				r, viol, path = c, cv, cpath
				break
			}
		}
		if r == nil {
			// last resort: the run together with everything its worker process executed before it
			c := cands[0]
			if c.Plan != nil && c.ProcStride > 0 {
				hp := *c.Plan
				hp.Expect = fp
				hp.History = &k.PlanHistory{From: c.ProcFrom, Stride: c.ProcStride, Upto: c.Run}
				hp.Note = "does not replay in a fresh process; replays after the runs its worker executed before it: production code keeps process-wide state across simulated servers"
				cpath := filepath.Join(outDir, fmt.Sprintf("%s-%d-%d-history.json", *prop, *seed, c.Run))
				b, _ := json.MarshalIndent(&hp, "", " ")
				_ = os.WriteFile(cpath, b, 0o644)
				rc := exec.Command(self, "replay", "-plan", cpath)
				rc.Env = append(os.Environ(), "TZ=UTC")
				outb, _ := rc.CombinedOutput()
				if strings.Contains(string(outb), "VIOLATION property=") {
					r, path = c, cpath
					for _, v := range c.Violations {
						if v.Fingerprint() == fp {
							viol = v
						}
					}
				}
			}
		}
		if r == nil {
			infra = true
			continue
		}
		if failures > 0 {
			fmt.Fprintf(os.Stderr, "note: %d run(s) with fingerprint %s did not replay in a fresh process (process-wide state?), run %d does\n", failures, fp, r.Run)
		}
		fmt.Printf("violation: rule=%s kind=%s cond=%q frame=%s seen=%d run=%d\n  %s\n", viol.Rule, viol.Kind, viol.Cond, viol.Frame, a.violCount[fp], r.Run, firstLines(viol.Detail, 10))
		fmt.Printf("VIOLATION property=%s replay=%s\n", *prop, path)
		reported++
		exit = 1
	}
	whats := make([]string, 0, len(knownSeen))
	for w := range knownSeen {
		whats = append(whats, w)
	}
	sort.Strings(whats)
	for _, w := range whats {
		fmt.Printf("KNOWN-FINDING: property=%s %s (seen %d times)\n", *prop, w, knownSeen[w])
	}

	// evidence
	samples := samplesOf(eng, *prop, *seed, 2)
	ruleText := eng.Rule(*prop)
	comps := map[string]string{}
	for k2, v := range eng.Components() {
		comps[k2] = v
	}
	assumptions := eng.Assumptions(*prop)
	for _, e2 := range phases[1:] {
		ruleText += " || " + e2.Rule(*prop)
		for k2, v := range e2.Components() {
			comps["engine "+e2.Name()+": "+k2] = v
		}
		assumptions = append(assumptions, e2.Assumptions(*prop)...)
		samples = append(samples, samplesOf(e2, *prop, *seed, 1)...)
	}
	ev := map[string]any{
		"property_id": *prop,
		"tier":        *tier,
		"seed":        *seed,
		"level":       "exploration",
		"wall_s":      wall,
		"violations":  len(fps),
		"coverage": map[string]any{
			"evaluations":         a.runs,
			"distinct_nontrivial": len(a.nontrivial),
			"rule":                ruleText,
			"samples":             samples,
			"runs_per_hour":       int(float64(a.runs) / wall * 3600),
			"simulated_time_ms":   a.simMs,
			"steps":               a.steps,
			"requests":            a.reqs,
			"requests_answered":   a.answered,
			"ticks":               a.ticks,
			"commits":             a.commits,
			"distinct_signatures": len(a.sigs),
			"distinct_abstract_table_states": len(a.states),
			"faults_fired":        a.stats,
			"probes":              a.probes,
			"operation_status":    a.statuses,
			"known_findings_seen": knownSeen,
			"violations_of_other_properties_seen": a.otherViol,
			"worker_deaths":       len(deaths),
			"components":          comps,
		},
		"assumptions": assumptions,
	}
	evDir := filepath.Join(verifRoot(), "evidence")
	_ = os.MkdirAll(evDir, 0o755)
	b, _ := json.MarshalIndent(ev, "", " ")
	if err := os.WriteFile(filepath.Join(evDir, *prop+".json"), b, 0o644); err != nil {
		fmt.Fprintln(os.Stderr, err)
		infra = true
	}
	fmt.Printf("runs=%d nontrivial_distinct=%d states=%d wall=%.1fs violations=%d known=%d other=%v\n", a.runs, len(a.nontrivial), len(a.states), wall, len(fps), len(knownSeen), a.otherViol)
	if exit == 1 {
		return 1
	}
	if infra || a.runs == 0 {
		fmt.Fprintln(os.Stderr, "infrastructure trouble")
		return 2
	}
	return 0
}

var reFrame = regexp.MustCompile(`(?m)^(github\.com/resonatehq/resonate/\S+?)\([^()]*\)$`)

// samplesOf regenerates a few runs in this process for the evidence file; on a tree where
// runs hang (which the workers have reported by then) it gives up.
func samplesOf(e k.Engine, prop string, seed int64, n int) []any {
	ch := make(chan []any, 1)
	go func() {
		defer func() {
			if r := recover(); r != nil {
				ch <- []any{fmt.Sprintf("sample generation panicked: %v", r)}
			}
		}()
		ch <- e.Samples(prop, seed, n)
	}()
	select {
	case s := <-ch:
		return s
	case <-time.After(90 * time.Second):
		return []any{"sample generation did not finish within 90 s"}
	}
}

// classifyDeath turns the stderr of a dead simulation process into a violation: a panic
// raised in production code, or a hang with every goroutine blocked inside a production call.
func classifyDeath(stderr string) *k.Violation {
	if i := strings.Index(stderr, "VERIF-HANG"); i >= 0 {
		frame := productionFrame(stderr[i:])
		if frame == "" {
			return nil
		}
		// nothing ever happens again: requests are not answered (C12), the server is wedged (C13),
		// background processing never converges (C11)
		props := []string{"C12", "C13", "C11"}
		if strings.Contains(frame, "subsystems/api") {
			// a front end (or the api helper both share) that never answers drops the reply
			props = append(props, "C15")
		}
		return &k.Violation{Rule: "hang", Props: props, Kind: "process", Cond: "a production call never returned: every goroutine is blocked", Frame: frame, Detail: firstLines(stderr[i:], 40)}
	}
	frame := productionFrame(stderr)
	if frame == "" {
		return nil
	}
	pprops := []string{"C13", "C12"}
	if strings.Contains(frame, "subsystems/api") {
		pprops = append(pprops, "C15")
	}
	return &k.Violation{Rule: "panic", Props: pprops, Kind: "process", Cond: panicMessage(stderr), Frame: frame, Detail: firstLines(stderr, 30)}
}

func productionFrame(stderr string) string {
	for _, m := range reFrame.FindAllStringSubmatch(stderr, -1) {
		f := m[1]
		if strings.HasPrefix(f, "github.com/resonatehq/resonate/verif/") || strings.HasSuffix(f, "util.Assert") {
			continue
		}
		return strings.TrimPrefix(f, "github.com/resonatehq/resonate/")
	}
	return ""
}

func panicMessage(stderr string) string {
	for _, l := range strings.Split(stderr, "\n") {
		if strings.HasPrefix(l, "panic: ") {
			m := strings.TrimPrefix(l, "panic: ")
			if len(m) > 120 {
				m = m[:120]
			}
			return m
		}
	}
	return "panic"
}

func loadTrace(path string) (*k.Plan, error) {
	b, err := os.ReadFile(path)
	if err != nil {
		return nil, err
	}
	lines := strings.Split(strings.TrimSpace(string(b)), "\n")
	if len(lines) == 0 {
		return nil, fmt.Errorf("empty trace")
	}
	var plan k.Plan
	if err := json.Unmarshal([]byte(lines[0]), &plan); err != nil {
		return nil, err
	}
	for _, l := range lines[1:] {
		var st k.Step
		if json.Unmarshal([]byte(l), &st) == nil {
			plan.Steps = append(plan.Steps, st)
		}
	}
	pb, _ := json.MarshalIndent(&plan, "", " ")
	_ = os.WriteFile(path, pb, 0o644)
	return &plan, nil
}

// ------------------------------------------------------------------ minimise

// try executes a candidate plan in a fresh process and reports whether the
// fingerprint recurs.
func try(self string, plan *k.Plan, fp string) bool {
	f, err := os.CreateTemp("", "vplan-*.json")
	if err != nil {
		return false
	}
	defer os.Remove(f.Name())
	b, _ := json.Marshal(plan)
	_, _ = f.Write(b)
	f.Close()
	cmd := exec.Command(self, "exec", "-plan", f.Name())
	cmd.Env = append(os.Environ(), "TZ=UTC")
	var stderr bytes.Buffer
	cmd.Stderr = &stderr
	out, err := cmd.Output()
	if err != nil {
		if v := classifyDeath(stderr.String()); v != nil {
			return v.Fingerprint() == fp
		}
		return false
	}
	var res k.RunResult
	if json.Unmarshal(out, &res) != nil {
		return false
	}
	for _, v := range res.Violations {
		if v.Fingerprint() == fp {
			return true
		}
	}
	return false
}

func withSteps(p *k.Plan, steps []k.Step) *k.Plan {
	c := *p
	c.Steps = steps
	return &c
}

// minimise is delta debugging over the step list, candidates in parallel.
func minimise(self string, plan *k.Plan, fp string) *k.Plan {
	if !try(self, plan, fp) {
		return plan
	}
	deadline := time.Now().Add(90 * time.Second)
	steps := plan.Steps
	n := 2
	for len(steps) >= 2 && time.Now().Before(deadline) {
		chunk := (len(steps) + n - 1) / n
		type cand struct {
			steps []k.Step
			ok    bool
		}
		var cands []*cand
		for i := 0; i < len(steps); i += chunk {
			end := i + chunk
			if end > len(steps) {
				end = len(steps)
			}
			c := append(append([]k.Step{}, steps[:i]...), steps[end:]...)
			cands = append(cands, &cand{steps: c})
		}
		var wg sync.WaitGroup
		sem := make(chan struct{}, 16)
		for _, c := range cands {
			wg.Add(1)
			sem <- struct{}{}
			go func(c *cand) {
				defer wg.Done()
				c.ok = try(self, withSteps(plan, c.steps), fp)
				<-sem
			}(c)
		}
		wg.Wait()
		reduced := false
		for _, c := range cands {
			if c.ok {
				steps = c.steps
				n = max(n-1, 2)
				reduced = true
				break
			}
		}
		if !reduced {
			if chunk == 1 {
				break
			}
			n = min(n*2, len(steps))
		}
	}
	return withSteps(plan, steps)
}

// ------------------------------------------------------------------ selftest

// selftest: determinism — the same seeds executed in separate processes at
// several GOMAXPROCS values must produce identical event hashes.
func cmdSelftest(args []string) int {
	fs := flag.NewFlagSet("selftest", flag.ExitOnError)
	props := fs.String("properties", "C01,C05,C06,C11", "")
	runs := fs.Int("runs", 32, "")
	seed := fs.Int64("seed", envSeed(1), "")
	_ = fs.Parse(args)
	self, _ := os.Executable()
	bad := 0
	total := 0
	list := strings.Split(*props, ",")
	for _, p := range list {
		if p == "C12" {
			// C12's second engine (production Loop in a synctest bubble)
			list = append(list, "C12/L")
		}
		if p == "C16" || p == "C18" {
			list = append(list, p+"/K")
		}
		if p == "C13" || p == "C19" || p == "C11" {
			list = append(list, p+"/P")
		}
	}
	for _, prop := range list {
		engName := ""
		if i := strings.Index(prop, "/"); i > 0 {
			prop, engName = prop[:i], prop[i+1:]
		}
		eng := k.EngineFor(prop)
		if engName != "" {
			eng = k.EngineByName(engName)
		}
		hashes := map[int]map[string]bool{}
		var mu sync.Mutex
		var wg sync.WaitGroup
		for _, procs := range []int{1, 4, 16} {
			for w := 0; w < 4; w++ {
				wg.Add(1)
				go func(procs, w int) {
					defer wg.Done()
					cmd := exec.Command(self, "worker", "-engine", eng.Name(), "-verify-replay", "-property", prop, "-seed", fmt.Sprint(*seed), "-from", fmt.Sprint(w), "-stride", "4", "-max", fmt.Sprint(*runs/4))
					cmd.Env = append(os.Environ(), "TZ=UTC", fmt.Sprintf("GOMAXPROCS=%d", procs))
					if ext, ok := eng.(*extEngine); ok {
						cmd = exec.Command(ext.path(), "-test.run", "^TestWorker$", "-test.timeout", "6h")
						cmd.Env = append(os.Environ(), "TZ=UTC", fmt.Sprintf("GOMAXPROCS=%d", procs), "VERIF_P_MODE=worker", "VERIF_P_VERIFY_REPLAY=1", "VERIF_P_PROP="+prop, "VERIF_P_SEED="+fmt.Sprint(*seed), "VERIF_P_FROM="+fmt.Sprint(w), "VERIF_P_STRIDE=4", "VERIF_P_MAX="+fmt.Sprint(*runs/4))
					}
					out, _ := cmd.Output()
					for _, l := range bytes.Split(out, []byte("\n")) {
						var wl workerLine
						if json.Unmarshal(l, &wl) == nil && wl.Type == "run" {
							mu.Lock()
							if hashes[wl.Run] == nil {
								hashes[wl.Run] = map[string]bool{}
							}
							hashes[wl.Run][wl.Result.EventHash] = true
							mu.Unlock()
						}
					}
				}(procs, w)
			}
		}
		wg.Wait()
		for run, hs := range hashes {
			total++
			div := false
			for h := range hs {
				if strings.Contains(h, "!replay-diverged") {
					div = true
				}
			}
			if len(hs) != 1 || div {
				bad++
				fmt.Printf("NONDETERMINISM property=%s engine=%s run=%d hashes=%v\n", prop, eng.Name(), run, hs)
			}
		}
	}
	fmt.Printf("selftest: %d runs compared at GOMAXPROCS 1/4/16, %d diverged\n", total, bad)
	if bad > 0 || total == 0 {
		return 2
	}
	return 0
}
