#!/usr/bin/env python3
"""survey.py PROP RUNS_PER_WORKER [SEED]: run 16 workers, aggregate every violation by fingerprint (all properties)."""
import sys, json, subprocess, collections, os
prop, n = sys.argv[1], int(sys.argv[2]); seed = sys.argv[3] if len(sys.argv) > 3 else '1'
procs = [subprocess.Popen(['/verif/bin/vcheck','worker','-property',prop,'-seed',seed,'-from',str(w),'-stride','16','-max',str(n)],stdout=subprocess.PIPE,stderr=subprocess.PIPE,text=True,env=dict(os.environ,TZ='UTC')) for w in range(16)]
c = collections.Counter(); ex = {}; runs = 0; deaths = []
import threading
outs = {}
def rd(p):
    outs[p] = p.communicate()
ths = [threading.Thread(target=rd, args=(p,)) for p in procs]
[t.start() for t in ths]; [t.join() for t in ths]
for p in procs:
    out, err = outs[p]
    cur = None
    for l in out.splitlines():
        try: d = json.loads(l)
        except Exception: continue
        if d['type'] == 'start': cur = d['run']
        if d['type'] != 'run': continue
        cur = None; runs += 1
        for v in d['result'].get('violations', []):
            k = (','.join(v['props']), v['rule'], v['kind'][:50], v['cond'][:90])
            c[k] += 1; ex.setdefault(k, (d['run'], v['detail'][:int(os.environ.get('DETAIL','300'))]))
    if p.returncode != 0:
        deaths.append((cur, err[-1500:]))
print('runs', runs, 'deaths', len(deaths))
for k, v in sorted(c.items(), key=lambda x: -x[1]):
    mark = '*' if prop in k[0].split(',') else ' '
    print(mark, v, k, 'run', ex[k][0]); print('      ', ex[k][1].replace('\n', '\n       '))
for d in deaths[:3]: print('DEATH run', d[0], d[1])
