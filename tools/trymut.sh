#!/bin/sh
# trymut.sh <patch.diff> <secs> <prop> [prop...]: apply a seeded change to /repo, run the quick checks, always undo.
PATCH="$1"; SECS="$2"; shift; shift
cd /repo || exit 2
git diff --quiet || { echo "/repo is dirty"; exit 2; }
trap 'git -C /repo checkout -- . ; git -C /repo clean -fdq -- test/seeded 2>/dev/null' EXIT INT TERM
git apply "$PATCH" || { echo "patch does not apply"; exit 2; }
for P in "$@"; do
  echo "=== $P"
  sh /verif/check.sh "$P" quick -secs "$SECS" 2>&1 | grep -E "^VIOLATION|^KNOWN|^violation|^runs=|infrastructure|build failed" | cut -c1-300
done
