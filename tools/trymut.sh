#!/bin/sh
# trymut.sh <patch.diff> <secs> <prop> [prop...]: run quick checks against a seeded change WITHOUT touching /repo:
# a scratch worktree of /repo gets the patch, a scratch copy of /verif is pointed at it (go.mod replace, VERIF_REPO),
# both live on /dev/shm and are removed afterwards.
PATCH="$1"; SECS="$2"; shift; shift
M=$(mktemp -d /dev/shm/mut.XXXXXX) || exit 2
cleanup() { git -C /repo worktree remove --force "$M/repo" 2>/dev/null; rm -rf "$M"; git -C /repo worktree prune; }
trap cleanup EXIT INT TERM
git -C /repo worktree add --detach "$M/repo" HEAD >/dev/null 2>&1 || { echo "worktree failed"; exit 2; }
git -C "$M/repo" apply "$PATCH" || { echo "patch does not apply"; exit 2; }
mkdir -p "$M/verif"
rsync -a --exclude out --exclude bin --exclude .git --exclude seeded /verif/ "$M/verif/"
sed -i "s|=> /repo\$|=> $M/repo|" "$M/verif/sim/go.mod"
for P in "$@"; do
  echo "=== $P"
  VERIF_ROOT="$M/verif" VERIF_REPO="$M/repo" sh "$M/verif/check.sh" "$P" quick -secs "$SECS" 2>&1 | sed "s|$M/verif|/verif(mut)|g" | grep -E "^VIOLATION|^KNOWN|^violation|^runs=|infrastructure|build failed|^worker died" | cut -c1-300
done
