#!/usr/bin/env python3
"""Writes /verif/MANIFEST.json from the table below (kept in one place so that it stays valid)."""
import json, subprocess, os

ALL = ["C%02d" % i for i in range(1, 21)]

# property -> (engine, technique, level text, level note, design ref)
CLAIMED = {
 "C01": ("K", "deterministic simulation with fault injection: table monitor after every commit + observation ledger",
         "Seeded exploration of interleavings, batchings, failures and crash points on the production kernel over real SQLite; write-once / immutability is checked on every committed transaction and on every promise body that leaves the server. Evidence, not proof.",
         "Trusts SQLite atomic commit, the harness's snapshot reader and its attribution of transactions to requests.", "DESIGN.md §5 C01"),
}

def hooks_commits():
    out = subprocess.run(["git", "-C", "/repo", "log", "--format=%H %s"], capture_output=True, text=True).stdout
    return [l.split()[0] for l in out.splitlines() if "verif hook" in l]

def main():
    checks = []
    for pid, (eng, tech, text, note, ref) in sorted(CLAIMED.items()):
        checks.append({
            "property_id": pid,
            "quick_cmd": f"sh /verif/check.sh {pid} quick",
            "thorough_cmd": f"sh /verif/check.sh {pid} thorough",
            "evidence_file": f"/verif/evidence/{pid}.json",
            "replay_cmd_template": "/verif/bin/vcheck replay -plan {path}",
            "engine": eng,
            "level_claimed": {"category": "exploration", "text": text, "design_ref": ref},
            "level_note": note,
            "technique": tech,
        })
    na = [{"property_id": p, "reason": NA.get(p, "not claimed yet: its check is still under construction in this session")} for p in ALL if p not in CLAIMED]
    m = {
        "version": 1,
        "setup_cmd": "sh /verif/build.sh",
        "hooks": {
            "guard": "verif",
            "enable": "go build -tags verif (harness module /verif/sim with replace github.com/resonatehq/resonate => /repo)",
            "baseline_off_cmd": "cd /repo && GOFLAGS=-mod=mod GOPROXY=off GOSUMDB=off go test -json -vet=off -count=1 -timeout 25m ./...",
            "source_commits": hooks_commits(),
            "add_only": True,
        },
        "engines": ENGINES,
        "checks": checks,
        "notes": "All checks are seeded deterministic simulations (VERIF_SEED); exit 0 held, 1 violation, 2 infrastructure trouble. See DESIGN.md.",
        "not_applicable": na,
    }
    json.dump(m, open("/verif/MANIFEST.json", "w"), indent=1)

NA = {}
ENGINES = [
 {"name": "K", "path": "/verif/sim/k", "serves_properties": sorted(p for p, v in CLAIMED.items() if v[0] == "K"),
  "kind_free_text": "single-threaded seeded simulator around the production kernel (api/aio queues, system.Tick, coroutines, store/router/sender processing) over real SQLite through a fault-injecting database/sql driver; table monitor, reference store model, sequential API specification"},
]

if __name__ == "__main__":
    main()
