#!/usr/bin/env python3
"""Writes /verif/MANIFEST.json from the table below (kept in one place so that it stays valid)."""
import json, subprocess, os

ALL = ["C%02d" % i for i in range(1, 21)]

# property -> (engine, technique, level text, level note, design ref)
K_NOTE = "Trusts SQLite atomic commit, the harness's snapshot reader and its attribution of transactions to requests; transports are simulated; sampling bounds in DESIGN.md section 5."
def K(tech, text, ref):
    return ("K", "deterministic simulation with fault injection: " + tech, text + " Seeded sampling of schedules, faults and configurations: evidence, not proof.", K_NOTE, ref)

CLAIMED = {
 "C01": K("table monitor after every commit + observation ledger", "Write-once completion and immutable creation fields are checked on every committed transaction (rules T1/T2) and on every promise body that leaves the server (responses, claim payloads, notifications) under concurrent requests, sweeps, failures and crashes.", "DESIGN.md 5 C01"),
 "C02": K("refinement of every response against a sequential API specification at the request's own commit points", "Every response must equal what the sequential specification gives for some state the request's own store transactions saw or produced and some server clock within the request's interval; an acknowledged task or lock lease must not be undone before it ends. Runs rotate through the general request mix and the task, lock, registration and schedule mixes.", "DESIGN.md 5 C02, 4.2"),
 "C03": K("sequential specification of create/complete idempotency + write-once monitor under retries and lost responses", "One promise id per run, retried and duplicated creates/completes with every key/strict/state combination around the timeout, lost responses injected after commit; statuses from the specification, at most one creation/completion by the table monitor.", "DESIGN.md 5 C03"),
 "C04": K("boundary-biased simulated clock; exact rules on the response clock and on stored rows", "Ticks are placed on and around every stored deadline; no reply may show a promise pending at a response clock >= timeout, no row may time out before its deadline, timed-out rows have the prescribed shape, late completions never install the caller's value.", "DESIGN.md 5 C04"),
 "C05": K("conversion invariant at the completing transaction + registration acknowledgement rule", "At the transaction that takes a promise out of pending every registration becomes exactly one task and is removed; no registration outlives its promise at any commit; acknowledged registrations are explained by the specification.", "DESIGN.md 5 C05"),
 "C06": K("crash at every seam including mid-transaction; snapshot equality after restart; atomicity invariants at every commit; graceful stop with the real default configuration", "Crash points are sampled per run (between steps, before/after commit, inside a transaction); the first snapshot after restart must equal the last committed one, atomicity invariants hold at every commit, background work resumes, graceful stop keeps the file.", "DESIGN.md 5 C06"),
 "C07": K("fencing / lease monitor on every task transition + task specification", "Claims need the current counter on a claimable task; a holder loses its task only after its (timely renewed) lease, the task timeout or promise completion; counters never decrease and rise exactly on reclaim; finished tasks are absorbing.", "DESIGN.md 5 C07"),
 "C08": K("birth/finish atomicity monitor + per-cycle dispatch rules with the production router and sender worker over simulated transports", "Routed promises are born with their task, completion finishes outstanding tasks in the same transaction, each dispatch cycle obeys the selection rules, tasks are enqueued only after a successful hand-off.", "DESIGN.md 5 C08"),
 "C09": K("lock lease monitor + lock specification", "Mutual exclusion, release only by the holder, expiry only at or after the (timely renewed) lease end, heartbeats change only leases of the caller's locks; crashes and restarts (30 % of the runs) must leave every held lock in place.", "DESIGN.md 5 C09"),
 "C10": K("occurrence oracle (independent cron walk) on every schedule-row transition", "Every change of a schedule row must be the firing of exactly the next occurrence, not before its time, together with that occurrence's promise carrying the schedule's configuration; creation/deletion rules; clock jumps over many occurrences, crashes mid-cycle.", "DESIGN.md 5 C10"),
 "C11": K("bounded-liveness predicate after a fault-free window whose length is computed from the backlog, swarm over all size knobs", "After clients and faults stop, the server is granted a number of background periods computed from the stored backlog and the batch sizes; afterwards nothing may be overdue and the kernel must be quiescent (every second run uses the task mix with failing hand-offs). A second phase (15 %) runs the poll transport itself (engine P): every message given to the worker is completed, whatever its listeners do (stalled, full, gone).", "DESIGN.md 5 C11"),
 "C12": K("exactly-one-response accounting on the production api/aio queues under tiny queues, subsystem failures and shutdown", "Every submitted request is counted: never two callbacks, exactly one by the end of the run (or lost only to a crash), explicit kernel error codes, graceful shutdown answers everything accepted; a production call that never returns (every goroutine blocked) is reported as a hang with its replay. A second phase runs the production Loop/Signal/Shutdown in a synctest bubble.", "DESIGN.md 5 C12"),
 "C14": K("per-page comparison with the state the page's transaction saw + traversal oracle across pages", "Each page must be the newest-first matching set of the state its search transaction saw, with a cursor iff full; a completed traversal must contain every item that matched throughout exactly once, in order; forged cursors are refused. Runs start from stored content (4-10 promises, 2-5 schedules with several tags), cursors are followed by the client that holds them.", "DESIGN.md 5 C14"),
 "C19": K("independent receiver resolution function checked against every hand-off of the production router + sender worker", "For every dispatched task the message must reach the transport and address the statement prescribes, with the body naming that exact task; unresolvable addresses must produce failed, retried hand-offs, never a message. A second phase (15 %) runs the poll transport itself (engine P): the bytes of a hand-off reported successful reach exactly one listener the address names, a full or absent listener fails the hand-off.", "DESIGN.md 5 C19"),
}
CLAIMED["C16"] = ("S", "deterministic simulation with fault injection: store-level refinement against an in-memory reference store, with failing statement positions and a mid-transaction observer",
  "Generated batches of store transactions (all 27 command kinds, small argument domains) run through the production Process/Execute/SQL on real SQLite and through the reference store; results and table contents compared after every batch; injected statement/begin/commit failures must fail every submission without effects; a second connection must see nothing before commit. A second phase (30 % of the budget) runs the kernel engine and requires every batch the production coroutines commit to refine the same reference store. Seeded sampling: evidence, not proof.",
  "Trusts SQLite's engine and atomic commit; the reference store is written from the command contract.", "DESIGN.md 5 C16")
CLAIMED["C17"] = ("S", "deterministic simulation with fault injection: twin run of the SQLite backend and the Postgres backend code over a dialect-rewriting driver, both against the reference store",
  "The same generated batches (and injected failures) go through sqlite.go and postgres.go; the Postgres statements are executed on SQLite by a syntactic rewriting driver, so guards, argument order, scan order and result mapping of postgres.go are exercised for real; results and contents are compared with the reference store and with each other. Seeded sampling with a stubbed database server.",
  "No Postgres server in the sandbox: server-only behaviour (isolation with several workers, LIKE case rules, jsonb normalisation) is not decided. See DESIGN.md 9.", "DESIGN.md 5 C17, 9")
CLAIMED["C13"] = K("hostile inputs through both production front ends interleaved with well-formed traffic, then background cycles, crash and restart; no panic anywhere, every request answered, refused requests leave no trace",
  "Field-wise mutated HTTP and gRPC requests (absent, null, wrong type, negative, huge, template syntax, JSON literals, separators, forged and well-signed hostile cursors) go through the real gin engine and gRPC service methods into the simulated kernel; stored data is then routed, dispatched, fired and timed out, also after restart. A panic in any production goroutine (recovered or process death), a production call that never returns, an unanswered request or a 4xx reply that left a trace is a violation. Receivers the transports cannot use go through the production address handling of the poll and http workers; registrations with coinciding derived ids are generated; a second phase (15 %) runs the poll transport itself (engine P) under connection histories.", "DESIGN.md 5 C13")
CLAIMED["C15"] = K("rendered reply compared with the kernel outcome for every request of a faulted simulation through both front ends, plus a shadow translation through the other protocol",
  "Every request goes through HTTP or gRPC; the api wrapper records the kernel request and the kernel outcome, the handler's rendered reply is checked against an independent rendering (status/100, resource or error body; gRPC code by status class, message fields, outcome flags), and the same spec is translated through the other protocol against a capture api to compare kernel requests. Error statuses are produced by real faults, tiny queues and shutdown; 30 % of the requests get a synthesised kernel outcome (every status code defined in status.go, optional resources present or absent) rendered through both front ends; the kernel request is compared with the client's intent. Input-dominated property: see DESIGN.md 9.", "DESIGN.md 5 C15, 9")
CLAIMED["C20"] = K("hostile-but-legal client data written through one front end and observed through the other, through search, claims, notifications, dispatched bodies and after restart, against byte-exact oracles",
  "Ids with separators, markup, case and whitespace variants and non-ASCII text, arbitrary value bytes, header/tag maps, int64-extreme timeouts; the kernel request must equal the spec (both protocols), rows must equal the request, every body must equal the row, derived ids (scheduled promise ids, task ids) must embed the client id verbatim. Input-dominated property: see DESIGN.md 9.", "DESIGN.md 5 C20, 9")
CLAIMED["C18"] = ("P", "deterministic simulation: production poll worker loop and HTTP handler in a testing/synctest bubble, one event at a time, against a registry model",
  "Sequences of connects, client departures, reconnects with the same id, sends (invoke/resume/notify, with and without id), worker stalls inside completion callbacks, slow clients and stops over 2-3 groups and ids with buffer, connection-limit and queue sizes down to 1; every completion and every byte written to a stream is judged against a registry model written from the statement. A second phase (25 % of the budget) runs the kernel engine with the dispatch mix: the production sender's hand-off to the transports (address handling of the production poll/http workers, and the bytes a transport holds must not change after the hand-off). Seeded sampling: evidence, not proof.",
  "Trusts testing/synctest quiescence; TCP and net/http's server are not involved; schedules in which a select would have two ready cases are not generated.", "DESIGN.md 5 C18")

def hooks_commits():
    out = subprocess.run(["git", "-C", "/repo", "log", "--format=%H %s"], capture_output=True, text=True).stdout
    return [l.split()[0] for l in out.splitlines() if "verif hook" in l]

def main():
    checks = []
    for pid, (eng, tech, text, note, ref) in sorted(CLAIMED.items()):
        checks.append({
            "property_id": pid,
            "quick_cmd": f"sh /verif/check.sh {pid} quick",
            "thorough_cmd": f"sh /verif/check.sh {pid} thorough",
            "evidence_file": f"/verif/evidence/{pid}.json",
            "replay_cmd_template": "/verif/bin/vcheck replay -plan {path}",
            "engine": eng,
            "level_claimed": {"category": "exploration", "text": text, "design_ref": ref},
            "level_note": note,
            "technique": tech,
        })
    na = [{"property_id": p, "reason": NA.get(p, "not claimed yet: its check is still under construction in this session")} for p in ALL if p not in CLAIMED]
    m = {
        "version": 1,
        "setup_cmd": "sh /verif/build.sh",
        "hooks": {
            "guard": "verif",
            "enable": "go build -tags verif (harness module /verif/sim with replace github.com/resonatehq/resonate => /repo)",
            "baseline_off_cmd": "cd /repo && GOFLAGS=-mod=mod GOPROXY=off GOSUMDB=off go test -json -vet=off -count=1 -timeout 25m ./...",
            "source_commits": hooks_commits(),
            "add_only": True,
        },
        "engines": ENGINES,
        "checks": checks,
        "notes": "All checks are seeded deterministic simulations (VERIF_SEED); exit 0 held, 1 violation, 2 infrastructure trouble. See DESIGN.md.",
        "not_applicable": na,
    }
    json.dump(m, open("/verif/MANIFEST.json", "w"), indent=1)

NA = {}
ENGINES = [
 {"name": "P", "path": "/verif/sim/p", "serves_properties": ["C18"],
  "kind_free_text": "poll transport engine: production PollWorker.Start and PollHandler.ServeHTTP inside a testing/synctest bubble (go1.26.8), seeded one-event-at-a-time scheduler, registry model"},
 {"name": "S", "path": "/verif/sim/s", "serves_properties": ["C16", "C17"],
  "kind_free_text": "store-only engine: generated batches of store transactions through the production store code of one or both backends over the fault-injecting driver, compared with the in-memory reference store and a mid-transaction observer"},
 {"name": "K", "path": "/verif/sim/k", "serves_properties": sorted(p for p, v in CLAIMED.items() if v[0] == "K"),
  "kind_free_text": "single-threaded seeded simulator around the production kernel (api/aio queues, system.Tick, coroutines, store/router/sender processing) over real SQLite through a fault-injecting database/sql driver; table monitor, reference store model, sequential API specification"},
]

if __name__ == "__main__":
    main()
