#!/bin/sh
# mutenv.sh <patch.diff>: build a persistent mutant environment at /dev/shm/mutdbg (remove with tools/mutenv.sh -rm)
M=/dev/shm/mutdbg
if [ "$1" = "-rm" ]; then git -C /repo worktree remove --force $M/repo 2>/dev/null; rm -rf $M; git -C /repo worktree prune; exit 0; fi
git -C /repo worktree remove --force $M/repo 2>/dev/null; rm -rf $M; git -C /repo worktree prune; mkdir -p $M
git -C /repo worktree add --detach $M/repo HEAD >/dev/null 2>&1 || exit 2
git -C $M/repo apply "$1" || exit 2
rsync -a --exclude out --exclude bin --exclude .git --exclude seeded /verif/ $M/verif/
sed -i "s|=> /repo\$|=> $M/repo|" $M/verif/sim/go.mod
VERIF_ROOT=$M/verif VERIF_REPO=$M/repo sh $M/verif/build.sh
echo "$M/verif/bin/vcheck"
