#!/bin/sh
# wave.sh <suffix> <secs> <id...>: for each /tmp/wt2-<id>: confirm, store under /verif/seeded/<id>-<suffix>, run the property's quick check against it.
SUF="$1"; SECS="$2"; shift; shift
for ID in "$@"; do
  WT=${WT_PREFIX:-/tmp/wt2}-$ID
  echo "################ $ID"
  [ -f $WT/SEEDED/patch.diff ] || { echo "no patch"; continue; }
  sh /verif/tools/confirm_seed.sh $WT 2>&1 | grep -E "rc=|^FAIL|^ok|^---|^demo|non-ok" | head -16
  D=/verif/seeded/$ID-$SUF
  mkdir -p $D && cp $WT/SEEDED/patch.diff $D/ && cp -r $WT/SEEDED/demo $D/ 2>/dev/null; cp $WT/SEEDED/README.md $D/ 2>/dev/null
  sh /verif/tools/trymut.sh $D/patch.diff $SECS $ID 2>&1 | grep -v conda
done
