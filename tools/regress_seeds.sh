#!/bin/sh
# regress_seeds.sh [secs] [ids...]: run every seeded change against the quick check of its property (isolated, /repo untouched)
# and write one line per seed: id, caught|MISSED, rules (seen counts), runs.
SECS="${1:-30}"; shift 2>/dev/null
IDS="$@"; [ -n "$IDS" ] || IDS=$(ls /verif/seeded | grep -E '^C[0-9]+-[a-z]$')
OUT=/verif/seeded/REGRESSION.tsv
[ -n "$APPEND" ] || : > $OUT
for ID in $IDS; do
  P=${ID%-*}
  LOG=$(sh /verif/tools/trymut.sh /verif/seeded/$ID/patch.diff $SECS $P 2>&1)
  V=$(echo "$LOG" | grep -c "^VIOLATION")
  RULES=$(echo "$LOG" | grep "^violation:" | sed -E 's/^violation: rule=([^ ]+).* seen=([0-9]+).*/\1(\2)/' | paste -sd, -)
  RUNS=$(echo "$LOG" | grep "^runs=" | sed -E 's/^runs=([0-9]+).*/\1/' | head -1)
  if [ "$V" -gt 0 ]; then R=caught; else R=MISSED; fi
  printf "%s\t%s\t%s\truns=%s\n" "$ID" "$R" "$RULES" "$RUNS" | tee -a $OUT
done
