#!/bin/sh
# mutsurvey.sh <patch.diff> <prop> <runs-per-worker>: apply a seeded change, survey violations of <prop> (no minimisation), undo.
PATCH="$1"; PROP="$2"; N="$3"
cd /repo || exit 2
git diff --quiet || { echo "/repo is dirty"; exit 2; }
trap 'git -C /repo checkout -- . ; git -C /repo clean -fdq -- test/seeded 2>/dev/null' EXIT INT TERM
git apply "$PATCH" || { echo "patch does not apply"; exit 2; }
sh /verif/build.sh >&2 || exit 2
cd /verif && DETAIL=${DETAIL:-200} python3 tools/survey.py "$PROP" "$N" | grep -E -A1 "^\*|^runs|DEATH" | cut -c1-400
