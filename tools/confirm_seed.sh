#!/bin/sh
# confirm_seed.sh <worktree>: confirm a sub-agent's seeded change: suite passes with it, demo fails with it, demo passes without it.
WT="$1"
export GOFLAGS=-mod=mod GOPROXY=off GOSUMDB=off GOTOOLCHAIN=local
cd "$WT" || exit 2
git -C "$WT" apply --check -R SEEDED/patch.diff 2>/dev/null || { echo "patch not applied in worktree?"; }
echo "== build"; go build ./... && go build -tags verif ./... || exit 1
echo "== suite with change (without demo package)"
go test -vet=off -count=1 -timeout 20m $(go list ./... | grep -v /test/seeded) 2>&1 | grep -v "no test files" | grep -v "^ok" ; echo "suite rc=$?"
echo "== demo with change (must FAIL)"
go test -vet=off -count=1 ./test/seeded/... >/tmp/seed_with.log 2>&1; echo "rc=$? (expect nonzero)"; tail -3 /tmp/seed_with.log
echo "== demo without change (must PASS)"
git apply -R SEEDED/patch.diff || exit 1
go test -vet=off -count=1 ./test/seeded/... >/tmp/seed_without.log 2>&1; echo "rc=$? (expect 0)"; tail -3 /tmp/seed_without.log
git apply SEEDED/patch.diff
