#!/bin/sh
# confirm_seed.sh <worktree>: confirm a sub-agent's seeded change: suite passes with it, demo fails with it, demo passes without it.
# The demo is whatever untracked *_test.go files the worktree holds outside SEEDED/.
WT="$1"
export GOFLAGS=-mod=mod GOPROXY=off GOSUMDB=off GOTOOLCHAIN=local
cd "$WT" || exit 2
git apply --check -R SEEDED/patch.diff 2>/dev/null || { echo "patch not applied in worktree?"; }
DEMOS=$(git status --porcelain --untracked-files=all | awk '$1=="??"{print $2}' | grep '_test\.go$' | grep -v '^SEEDED/')
[ -n "$DEMOS" ] || { echo "no demo test files found"; exit 1; }
PKGS=$(for f in $DEMOS; do echo "./$(dirname $f)"; done | sort -u)
echo "demo files: $DEMOS"; echo "demo packages: $PKGS"
echo "== build"; go build ./... && go build -tags verif ./... || exit 1
echo "== suite with change (demo files moved aside)"
ASIDE=$(mktemp -d)
for f in $DEMOS; do mkdir -p "$ASIDE/$(dirname $f)"; mv "$f" "$ASIDE/$f"; done
go test -vet=off -count=1 -timeout 20m $(go list ./... | grep -v /SEEDED | grep -v /test/seeded) 2>&1 | grep -v "no test files" | grep -v "^ok" ; echo "suite non-ok lines above (none = pass)"
for f in $DEMOS; do mv "$ASIDE/$f" "$f"; done; rm -rf "$ASIDE"
echo "== demo with change (must FAIL)"
go test -vet=off -count=1 $PKGS >/tmp/seed_with.log 2>&1; echo "rc=$? (expect nonzero)"; grep -E "^(--- FAIL|FAIL|ok)" /tmp/seed_with.log | head -5
echo "== demo without change (must PASS)"
git apply -R SEEDED/patch.diff || exit 1
go test -vet=off -count=1 $PKGS >/tmp/seed_without.log 2>&1; echo "rc=$? (expect 0)"; grep -E "^(--- FAIL|FAIL|ok)" /tmp/seed_without.log | head -5
git apply SEEDED/patch.diff
